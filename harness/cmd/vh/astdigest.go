package main

// ast-digest: for every Go file under a directory, a digest of its AST with comments removed and the
// values of string / char literals (incl. struct tags) erased; concatenations of string literals are
// folded first, so that `"a" + "b"` and `"ab"` are the same program (C09).

import (
	"bytes"
	"crypto/sha256"
	"encoding/hex"
	"flag"
	"fmt"
	"go/ast"
	"go/parser"
	"go/printer"
	"go/token"
	"os"
	"path/filepath"
	"strings"
)

func init() { cmds["ast-digest"] = cmdASTDigest }

func isStrLit(e ast.Expr) bool {
	switch x := e.(type) {
	case *ast.BasicLit:
		return x.Kind == token.STRING || x.Kind == token.CHAR
	case *ast.ParenExpr:
		return isStrLit(x.X)
	}
	return false
}

type eraser struct{}

func foldExpr(e ast.Expr) ast.Expr {
	switch x := e.(type) {
	case *ast.BinaryExpr:
		x.X, x.Y = foldExpr(x.X), foldExpr(x.Y)
		if x.Op == token.ADD && isStrLit(x.X) && isStrLit(x.Y) {
			return &ast.BasicLit{Kind: token.STRING, Value: `""`}
		}
		return x
	case *ast.ParenExpr:
		x.X = foldExpr(x.X)
		if isStrLit(x.X) {
			return x.X
		}
		return x
	}
	return e
}

func erase(f *ast.File) {
	f.Comments = nil
	f.Doc = nil
	// fold concatenations bottom-up wherever an expression can occur
	ast.Inspect(f, func(n ast.Node) bool {
		switch x := n.(type) {
		case *ast.ValueSpec:
			for i := range x.Values {
				x.Values[i] = foldExpr(x.Values[i])
			}
			x.Doc, x.Comment = nil, nil
		case *ast.AssignStmt:
			for i := range x.Rhs {
				x.Rhs[i] = foldExpr(x.Rhs[i])
			}
		case *ast.CallExpr:
			for i := range x.Args {
				x.Args[i] = foldExpr(x.Args[i])
			}
		case *ast.ReturnStmt:
			for i := range x.Results {
				x.Results[i] = foldExpr(x.Results[i])
			}
		case *ast.KeyValueExpr:
			x.Value = foldExpr(x.Value)
		case *ast.CompositeLit:
			for i := range x.Elts {
				x.Elts[i] = foldExpr(x.Elts[i])
			}
		case *ast.Field:
			x.Doc, x.Comment = nil, nil
		case *ast.GenDecl:
			x.Doc = nil
		case *ast.FuncDecl:
			x.Doc = nil
		case *ast.TypeSpec:
			x.Doc, x.Comment = nil, nil
		case *ast.ImportSpec:
			x.Doc, x.Comment = nil, nil
			return false // import paths are not free text
		}
		return true
	})
	ast.Inspect(f, func(n ast.Node) bool {
		if _, ok := n.(*ast.ImportSpec); ok {
			return false
		}
		if bl, ok := n.(*ast.BasicLit); ok && (bl.Kind == token.STRING || bl.Kind == token.CHAR) {
			bl.Value = `""`
		}
		return true
	})
}

func cmdASTDigest(args []string) error {
	fs := flag.NewFlagSet("ast-digest", flag.ExitOnError)
	dir := fs.String("dir", "", "")
	_ = fs.Parse(args)
	out := obj{}
	errs := []any{}
	_ = filepath.Walk(*dir, func(p string, info os.FileInfo, err error) error {
		if err != nil || info.IsDir() || !strings.HasSuffix(p, ".go") {
			return nil
		}
		rel, _ := filepath.Rel(*dir, p)
		if strings.HasPrefix(rel, "drv"+string(filepath.Separator)) {
			return nil
		}
		fset := token.NewFileSet()
		f, err := parser.ParseFile(fset, p, nil, 0)
		if err != nil {
			errs = append(errs, rel+": "+err.Error())
			return nil
		}
		erase(f)
		var buf bytes.Buffer
		cfg := printer.Config{Mode: printer.RawFormat}
		_ = cfg.Fprint(&buf, token.NewFileSet(), f)
		// a second parse of the printed form normalises positions
		h := sha256.Sum256(buf.Bytes())
		out[rel] = hex.EncodeToString(h[:8])
		return nil
	})
	fmt.Println(string(mustJSON(obj{"files": out, "parseErrors": errs})))
	return nil
}
