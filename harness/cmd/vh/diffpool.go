package main

// C12: pool of valid documents and semantically neutral re-renderings.

import (
	"bufio"
	"bytes"
	"encoding/json"
	"flag"
	"fmt"
	"math/rand"
	"os"
	"path/filepath"
	"runtime"
	"sort"
	"strings"
	"sync"
	"time"

	"github.com/go-openapi/loads"
	"github.com/go-openapi/strfmt"
	"github.com/go-openapi/validate"
	yaml3 "gopkg.in/yaml.v3"
)

func init() {
	cmds["diff-pool"] = cmdDiffPool
	cmds["diff-drive12"] = cmdDiffDrive12
}

func isValidSwagger2(path string, timeout time.Duration) bool {
	ch := make(chan bool, 1)
	go func() {
		defer func() {
			if r := recover(); r != nil {
				ch <- false
			}
		}()
		doc, err := loads.Spec(path)
		if err != nil || doc.Spec() == nil || doc.Spec().Swagger != "2.0" || doc.Spec().Paths == nil {
			ch <- false
			return
		}
		v := validate.NewSpecValidator(doc.Schema(), strfmt.Default)
		res, _ := v.Validate(doc)
		if res == nil || !res.IsValid() {
			ch <- false
			return
		}
		// well-formedness: the document must denote one value (no duplicate keys etc.), i.e. loading its
		// own canonical JSON gives the same document. This filter does not involve the diff package.
		var g any
		if err := json.Unmarshal(doc.Raw(), &g); err != nil {
			ch <- false
			return
		}
		canonical, _ := json.Marshal(g)
		again, err := loads.Analyzed(canonical, "")
		if err != nil {
			ch <- false
			return
		}
		b1, _ := json.Marshal(doc.Spec())
		b2, _ := json.Marshal(again.Spec())
		ch <- bytes.Equal(b1, b2)
	}()
	select {
	case ok := <-ch:
		return ok
	case <-time.After(timeout):
		return false
	}
}

// cmdDiffPool: seeded choice of n valid Swagger 2.0 fixtures of the repository.
func cmdDiffPool(args []string) error {
	fs := flag.NewFlagSet("diff-pool", flag.ExitOnError)
	repo := fs.String("repo", "/repo", "")
	seed := fs.Int64("seed", 1, "")
	n := fs.Int("n", 40, "")
	out := fs.String("out", "pool.ndjson", "")
	_ = fs.Parse(args)
	var cands []string
	_ = filepath.Walk(filepath.Join(*repo, "fixtures"), func(p string, info os.FileInfo, err error) error {
		if err != nil || info.IsDir() {
			return nil
		}
		ext := strings.ToLower(filepath.Ext(p))
		if (ext == ".json" || ext == ".yml" || ext == ".yaml") && info.Size() < 400_000 {
			cands = append(cands, p)
		}
		return nil
	})
	sort.Strings(cands)
	// the twelve golden pairs of the diff suite are always part of the pool
	var must, rest []string
	for _, c := range cands {
		if strings.Contains(c, "/fixtures/diff/") && (strings.HasSuffix(c, ".v1.json") || strings.HasSuffix(c, ".v2.json")) {
			must = append(must, c)
		} else {
			rest = append(rest, c)
		}
	}
	rnd := rand.New(rand.NewSource(*seed))
	rnd.Shuffle(len(rest), func(i, j int) { rest[i], rest[j] = rest[j], rest[i] })
	ordered := append(must, rest...)
	valid := make([]bool, len(ordered))
	var wg sync.WaitGroup
	sem := make(chan struct{}, runtime.NumCPU())
	// validate in chunks until n are found
	found := 0
	pos := 0
	var pool []string
	for found < *n && pos < len(ordered) {
		end := pos + 2**n
		if end > len(ordered) {
			end = len(ordered)
		}
		for i := pos; i < end; i++ {
			wg.Add(1)
			sem <- struct{}{}
			go func(i int) {
				defer wg.Done()
				defer func() { <-sem }()
				valid[i] = isValidSwagger2(ordered[i], 20*time.Second)
			}(i)
		}
		wg.Wait()
		for i := pos; i < end && found < *n; i++ {
			if valid[i] {
				pool = append(pool, ordered[i])
				found++
			}
		}
		pos = end
	}
	f, err := os.Create(*out)
	if err != nil {
		return err
	}
	defer f.Close()
	for _, p := range pool {
		fmt.Fprintln(f, string(mustJSON(obj{"file": p})))
	}
	return nil
}

// ---- neutral re-renderings -------------------------------------------------------------------

func loadGeneric(path string) (any, error) {
	doc, err := loads.Spec(path)
	if err != nil {
		return nil, err
	}
	dec := json.NewDecoder(bytes.NewReader(doc.Raw()))
	dec.UseNumber()
	var v any
	if err := dec.Decode(&v); err != nil {
		return nil, err
	}
	return v, nil
}

func reverse(l []any) []any {
	out := make([]any, len(l))
	for i := range l {
		out[len(l)-1-i] = l[i]
	}
	return out
}

// walk applies f to every (key, array) pair of objects, bottom-up
func reorderLists(v any, keys map[string]bool, underSchema bool) any {
	switch x := v.(type) {
	case map[string]any:
		out := map[string]any{}
		for k, e := range x {
			e2 := reorderLists(e, keys, underSchema)
			if l, ok := e2.([]any); ok && keys[k] {
				e2 = reverse(l)
			}
			out[k] = e2
		}
		return out
	case []any:
		out := make([]any, len(x))
		for i, e := range x {
			out[i] = reorderLists(e, keys, underSchema)
		}
		return out
	}
	return v
}

// ordered JSON encoder writing object keys in reverse lexical order
func encodeReversed(buf *bytes.Buffer, v any) {
	switch x := v.(type) {
	case map[string]any:
		ks := make([]string, 0, len(x))
		for k := range x {
			ks = append(ks, k)
		}
		sort.Sort(sort.Reverse(sort.StringSlice(ks)))
		buf.WriteByte('{')
		for i, k := range ks {
			if i > 0 {
				buf.WriteByte(',')
			}
			kb, _ := json.Marshal(k)
			buf.Write(kb)
			buf.WriteByte(':')
			encodeReversed(buf, x[k])
		}
		buf.WriteByte('}')
	case []any:
		buf.WriteByte('[')
		for i, e := range x {
			if i > 0 {
				buf.WriteByte(',')
			}
			encodeReversed(buf, e)
		}
		buf.WriteByte(']')
	default:
		b, _ := json.Marshal(x)
		buf.Write(b)
	}
}

func toYAMLNode(v any) *yaml3.Node {
	switch x := v.(type) {
	case map[string]any:
		n := &yaml3.Node{Kind: yaml3.MappingNode}
		ks := make([]string, 0, len(x))
		for k := range x {
			ks = append(ks, k)
		}
		sort.Strings(ks)
		for _, k := range ks {
			kn := &yaml3.Node{Kind: yaml3.ScalarNode, Tag: "!!str", Value: k, Style: yaml3.DoubleQuotedStyle}
			n.Content = append(n.Content, kn, toYAMLNode(x[k]))
		}
		return n
	case []any:
		n := &yaml3.Node{Kind: yaml3.SequenceNode}
		for _, e := range x {
			n.Content = append(n.Content, toYAMLNode(e))
		}
		return n
	case json.Number:
		n := &yaml3.Node{Kind: yaml3.ScalarNode, Value: x.String()}
		if strings.ContainsAny(x.String(), ".eE") {
			n.Tag = "!!float"
		} else {
			n.Tag = "!!int"
		}
		return n
	case string:
		// double-quoted: the loader's YAML parser must read back exactly this string
		return &yaml3.Node{Kind: yaml3.ScalarNode, Tag: "!!str", Value: x, Style: yaml3.DoubleQuotedStyle}
	case bool:
		n := &yaml3.Node{Kind: yaml3.ScalarNode, Tag: "!!bool", Value: fmt.Sprint(x)}
		return n
	case nil:
		return &yaml3.Node{Kind: yaml3.ScalarNode, Tag: "!!null", Value: "null"}
	}
	n := &yaml3.Node{}
	n.SetString(fmt.Sprint(v))
	return n
}

// renderVariant writes a semantically neutral re-rendering of the document and returns its path.
func renderVariant(src string, edits []string, dir string, tag string) (string, error) {
	v, err := loadGeneric(src)
	if err != nil {
		return "", err
	}
	has := map[string]bool{}
	for _, e := range edits {
		has[e] = true
	}
	if has["reorder_params"] {
		v = reorderLists(v, map[string]bool{"parameters": true}, false)
	}
	if has["reorder_lists"] {
		v = reorderLists(v, map[string]bool{"enum": true, "required": true, "consumes": true, "produces": true, "schemes": true}, false)
	}
	if has["yaml"] {
		b, err := yaml3.Marshal(toYAMLNode(v))
		if err != nil {
			return "", err
		}
		p := filepath.Join(dir, tag+".yaml")
		return p, os.WriteFile(p, b, 0o644)
	}
	var buf bytes.Buffer
	if has["reorder_keys"] {
		encodeReversed(&buf, v)
	} else {
		b, _ := json.Marshal(v)
		buf.Write(b)
	}
	p := filepath.Join(dir, tag+".json")
	return p, os.WriteFile(p, buf.Bytes(), 0o644)
}

func cmdDiffDrive12(args []string) error {
	fs := flag.NewFlagSet("diff-drive12", flag.ExitOnError)
	casesPath := fs.String("cases", "", "")
	poolPath := fs.String("pool", "", "")
	outPath := fs.String("out", "trace.ndjson", "")
	bin := fs.String("swagger", "", "")
	work := fs.String("work", "", "")
	cliEvery := fs.Int("cli-every", 10, "run the CLI binary on every n-th case")
	jobs := fs.Int("j", runtime.NumCPU(), "")
	_ = fs.Parse(args)
	cases, err := readNDJSON(*casesPath)
	if err != nil {
		return err
	}
	poolRows, err := readNDJSON(*poolPath)
	if err != nil {
		return err
	}
	pool := []string{}
	for _, r := range poolRows {
		pool = append(pool, r["file"].(string))
	}
	results := make([][]obj, len(cases))
	startGuard()
	defer reportRunaway()
	var wg sync.WaitGroup
	sem := make(chan struct{}, *jobs)
	for i := range cases {
		wg.Add(1)
		sem <- struct{}{}
		go func(i int) {
			defer wg.Done()
			defer func() { <-sem }()
			if aborted() {
				return
			}
			c := cases[i]["c"].(obj)
			ii := int(mustFloat(c["i"])) - 1
			jj := int(mustFloat(c["j"])) - 1
			if ii >= len(pool) || jj >= len(pool) {
				return
			}
			dir := filepath.Join(*work, fmt.Sprintf("c12-%05d", i))
			_ = os.MkdirAll(dir, 0o755)
			fa, fb := pool[ii], pool[jj]
			edits := []string{}
			if l, ok := c["edits"].([]any); ok {
				for _, e := range l {
					edits = append(edits, e.(string))
				}
			}
			sort.Strings(edits)
			if c["kind"] == "neutral" {
				p, err := renderVariant(fa, edits, dir, "variant")
				if err != nil {
					results[i] = []obj{{"ev": "Load", "id": i, "c": obj{"kind": "neutral"}, "a": fa, "b": fa}, {"ev": "LoadError", "id": i, "err": err.Error()}}
					return
				}
				fb = p
			}
			cc := obj{"c": obj{"kind": c["kind"], "a": rel(fa), "b": rel(pool[jj]), "edits": strings.Join(edits, "+")}, "fileA": fa, "fileB": fb}
			b := ""
			if *cliEvery > 0 && i%*cliEvery == 0 {
				b = *bin
			}
			results[i] = driveDiffCase(i, cc, b, *work, "c12", 0)
		}(i)
	}
	wg.Wait()
	f, err := os.Create(*outPath)
	if err != nil {
		return err
	}
	defer f.Close()
	w := bufio.NewWriter(f)
	defer w.Flush()
	for _, r := range results {
		for _, e := range r {
			w.Write(mustJSON(e))
			w.WriteByte('\n')
		}
	}
	return nil
}

func rel(p string) string {
	if i := strings.Index(p, "/fixtures/"); i >= 0 {
		return p[i+1:]
	}
	return filepath.Base(p)
}

func mustFloat(v any) float64 {
	f, _ := toFloat(v)
	return f
}

// to-yaml: render a JSON document as YAML (double-quoted scalars) - used to feed YAML inputs (C10, C19)
func init() {
	cmds["to-yaml"] = func(args []string) error {
		b, err := os.ReadFile(args[0])
		if err != nil {
			return err
		}
		dec := json.NewDecoder(bytes.NewReader(b))
		dec.UseNumber()
		var v any
		if err := dec.Decode(&v); err != nil {
			return err
		}
		out, err := yaml3.Marshal(toYAMLNode(v))
		if err != nil {
			return err
		}
		return os.WriteFile(args[1], out, 0o644)
	}
}
