package main

// doc-digest: canonical-value digest of a spec file as the toolkit's own loader reads it (loads.Spec:
// the decisive reading for C19). Numbers are canonicalised exactly (big.Rat), so 1.0 == 1 but
// 9007199254740993 != 9007199254740992.

import (
	"bytes"
	"crypto/sha256"
	"encoding/hex"
	"encoding/json"
	"fmt"
	"math/big"
	"os"
	"sort"
	"strings"

	"github.com/go-openapi/loads"
)

func init() { cmds["doc-digest"] = cmdDocDigest }

func canonValue(buf *bytes.Buffer, v any) {
	switch x := v.(type) {
	case map[string]any:
		ks := make([]string, 0, len(x))
		for k := range x {
			ks = append(ks, k)
		}
		sort.Strings(ks)
		buf.WriteByte('{')
		for _, k := range ks {
			kb, _ := json.Marshal(k)
			buf.Write(kb)
			buf.WriteByte(':')
			canonValue(buf, x[k])
			buf.WriteByte(',')
		}
		buf.WriteByte('}')
	case []any:
		buf.WriteByte('[')
		for _, e := range x {
			canonValue(buf, e)
			buf.WriteByte(',')
		}
		buf.WriteByte(']')
	case json.Number:
		r, ok := new(big.Rat).SetString(x.String())
		if ok {
			buf.WriteString("#" + r.RatString())
		} else {
			buf.WriteString("#?" + x.String())
		}
	default:
		b, _ := json.Marshal(x)
		buf.Write(b)
	}
}

func cmdDocDigest(args []string) error {
	for _, f := range args {
		res := obj{"file": f}
		func() {
			defer func() {
				if r := recover(); r != nil {
					res["digest"], res["err"] = "unreadable", fmt.Sprint(r)
				}
			}()
			if _, err := os.Stat(f); err != nil {
				res["digest"], res["err"] = "unreadable", "missing"
				return
			}
			doc, err := loads.Spec(f)
			if err != nil {
				res["digest"], res["err"] = "unreadable", err.Error()
				return
			}
			dec := json.NewDecoder(bytes.NewReader(doc.Raw()))
			dec.UseNumber()
			var g any
			if err := dec.Decode(&g); err != nil {
				res["digest"], res["err"] = "unreadable", err.Error()
				return
			}
			var buf bytes.Buffer
			canonValue(&buf, g)
			h := sha256.Sum256(buf.Bytes())
			res["digest"] = hex.EncodeToString(h[:8])
			res["canon"] = trunc(strings.ReplaceAll(buf.String(), "\n", "\\n"), 3000)
		}()
		fmt.Println(string(mustJSON(res)))
	}
	return nil
}
