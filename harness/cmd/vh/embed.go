package main

// embed-compare (C10): canonical-JSON digests of the input document and of what a compiled generated
// server embeds / serves. $refs are resolved with spec.ExpandSpec (pinned dependency, trusted).

import (
	"crypto/sha256"
	"encoding/base64"
	"encoding/hex"
	"encoding/json"
	"flag"
	"fmt"
	"os"
	"strings"

	"github.com/go-openapi/loads"
	"github.com/go-openapi/spec"
)

func init() { cmds["embed-compare"] = cmdEmbedCompare }

// generator-added x-go-* extensions (x-go-gen-location ...) are not part of what the document describes
func stripGoExt(v any) any {
	switch x := v.(type) {
	case map[string]any:
		for k, e := range x {
			if strings.HasPrefix(k, "x-go-") {
				delete(x, k)
			} else {
				x[k] = stripGoExt(e)
			}
		}
	case []any:
		for i := range x {
			x[i] = stripGoExt(x[i])
		}
	}
	return v
}

func digestResolved(v any) string {
	b, _ := json.Marshal(v)
	var g any
	_ = json.Unmarshal(b, &g)
	return digestOf(stripGoExt(g))
}

func digestOf(v any) string {
	b, _ := json.Marshal(v) // map keys sorted
	var g any
	_ = json.Unmarshal(b, &g)
	b, _ = json.Marshal(g)
	h := sha256.Sum256(b)
	return hex.EncodeToString(h[:8])
}

func expanded(raw []byte) (*spec.Swagger, error) { return expandedAt(raw, "") }

// expandedAt resolves the $refs of a document; base is the path of the document when it refers to
// other files by relative $refs ("" for a document that must be self-contained)
func expandedAt(raw []byte, base string) (*spec.Swagger, error) {
	doc, err := loads.Analyzed(json.RawMessage(raw), "")
	if err != nil {
		return nil, err
	}
	sw := doc.Spec()
	if err := spec.ExpandSpec(sw, &spec.ExpandOptions{RelativeBase: base, SkipSchemas: false}); err != nil {
		return nil, err
	}
	return sw, nil
}

func cmdEmbedCompare(args []string) error {
	fs := flag.NewFlagSet("embed-compare", flag.ExitOnError)
	input := fs.String("input", "", "input document (json or yaml)")
	origB64 := fs.String("orig", "", "file with base64 of restapi.SwaggerJSON")
	flatB64 := fs.String("flat", "", "file with base64 of restapi.FlatSwaggerJSON")
	served := fs.String("served", "", "file with the body of GET /swagger.json")
	_ = fs.Parse(args)
	in, err := loads.Spec(*input)
	if err != nil {
		return err
	}
	var inGeneric any
	_ = json.Unmarshal(in.Raw(), &inGeneric)
	read64 := func(p string) []byte {
		b, _ := os.ReadFile(p)
		d, _ := base64.StdEncoding.DecodeString(string(b))
		return d
	}
	orig, flat := read64(*origB64), read64(*flatB64)
	var og, sg any
	origErr := json.Unmarshal(orig, &og)
	sb, _ := os.ReadFile(*served)
	servedErr := json.Unmarshal(sb, &sg)
	out := obj{"input": digestOf(inGeneric), "orig": "unparseable", "served": "unparseable"}
	if origErr == nil {
		out["orig"] = digestOf(og)
	}
	if servedErr == nil {
		out["served"] = digestOf(sg)
	}
	ein, err1 := expandedAt(in.Raw(), *input) // the input may refer to sibling files; the embedded flat document may not
	efl, err2 := expanded(flat)
	if err1 != nil || err2 != nil {
		out["expandErr"] = fmt.Sprint(err1, err2)
		out["inputPaths"], out["flatPaths"], out["inputSecurity"], out["flatSecurity"], out["missingDefs"] = "a", "b", "a", "b", 0
		fmt.Println(string(mustJSON(out)))
		return nil
	}
	out["inputPaths"], out["flatPaths"] = digestResolved(ein.Paths), digestResolved(efl.Paths)
	out["inputSecurity"] = digestOf([]any{ein.Security, ein.SecurityDefinitions})
	out["flatSecurity"] = digestOf([]any{efl.Security, efl.SecurityDefinitions})
	missing := []any{}
	for name, d := range ein.Definitions {
		fd, ok := efl.Definitions[name]
		if !ok || digestResolved(d) != digestResolved(fd) {
			missing = append(missing, name)
		}
	}
	out["missingDefs"] = len(missing)
	out["missing"] = missing
	fmt.Println(string(mustJSON(out)))
	return nil
}
