package main

// Scanner family (C16 C17 C18): run the REAL codescan.Run on a package and abstract the resulting
// definitions 1:1 into the schema encoding of JsonSchema.tla (inverse of absSchema).

import (
	"encoding/json"
	"flag"
	"fmt"
	"os"
	"runtime/debug"
	"strings"

	"github.com/go-swagger/go-swagger/codescan"
)

func init() { cmds["scan-models"] = cmdScanModels }

var patMenuRev = func() map[string]string {
	m := map[string]string{}
	for k, v := range patMenu {
		m[v] = k
	}
	return m
}()

func upscale(v any) any {
	f, ok := toFloat(v)
	if !ok {
		return v
	}
	d := f * 2
	if d == float64(int64(d)) && d < 1<<30 && d > -(1<<30) {
		return int64(d)
	}
	return int64(999983) // not representable in the abstract number domain: never equal to anything
}

// swaggerToAbs: Swagger schema JSON -> abstract schema. Descriptive keywords, defaults, examples and
// extensions are dropped (C18 lets them differ).
func swaggerToAbs(s any) any {
	m, ok := s.(map[string]any)
	if !ok {
		return s
	}
	out := obj{}
	for k, v := range m {
		switch {
		case k == "$ref":
			r := fmt.Sprint(v)
			out["ref"] = r[strings.LastIndex(r, "/")+1:]
		case k == "description" || k == "title" || k == "default" || k == "example" || strings.HasPrefix(k, "x-") || k == "discriminator" || k == "externalDocs" || k == "xml":
		case k == "additionalProperties":
			if b, isb := v.(bool); isb {
				if !b {
					out["noAdditional"] = true
				}
			} else {
				out[k] = swaggerToAbs(v)
			}
		case k == "items":
			out[k] = swaggerToAbs(v)
		case k == "properties":
			pm := obj{}
			for pk, pv := range v.(map[string]any) {
				pm[pk] = swaggerToAbs(pv)
			}
			out[k] = pm
		case k == "allOf":
			l := []any{}
			for _, e := range v.([]any) {
				l = append(l, swaggerToAbs(e))
			}
			out[k] = l
		case k == "pattern":
			if n, ok := patMenuRev[fmt.Sprint(v)]; ok {
				out[k] = n
			} else {
				out[k] = "rx:" + fmt.Sprint(v)
			}
		case k == "enum" && (m["type"] == "array" || m["type"] == "object"):
			out["enumT"] = []any{"present"} // enum of a non-scalar schema: only its presence is compared
		case k == "enum":
			l := []any{}
			for _, e := range v.([]any) {
				if isNumericType(m["type"]) {
					l = append(l, upscale(e))
				} else {
					l = append(l, e)
				}
			}
			out[k] = l
		case scaledKeys[k]:
			out[k] = upscale(v)
		case k == "minLength" || k == "maxLength" || k == "minItems" || k == "maxItems" || k == "minProperties" || k == "maxProperties":
			f, _ := toFloat(v)
			out[k] = int64(f)
		default:
			out[k] = v
		}
	}
	return out
}

func cmdScanModels(args []string) error {
	fs := flag.NewFlagSet("scan-models", flag.ExitOnError)
	dir := fs.String("dir", "", "module directory")
	pkg := fs.String("pkg", "./models", "package pattern")
	out := fs.String("out", "scanned.ndjson", "")
	rawOut := fs.String("raw", "", "optional: write the raw scanned document")
	_ = fs.Parse(args)
	f, err := os.Create(*out)
	if err != nil {
		return err
	}
	defer f.Close()
	var panicked string
	doc, err := func() (d any, e error) {
		defer func() {
			if r := recover(); r != nil {
				panicked = fmt.Sprint(r) + "\n" + string(debug.Stack())
			}
		}()
		sw, e := codescan.Run(&codescan.Options{Packages: []string{*pkg}, WorkDir: *dir, ScanModels: true})
		if e != nil {
			return nil, e
		}
		b, e := json.Marshal(sw)
		if e != nil {
			return nil, e
		}
		if *rawOut != "" {
			_ = os.WriteFile(*rawOut, b, 0o644)
		}
		var g map[string]any
		e = json.Unmarshal(b, &g)
		return g, e
	}()
	if panicked != "" || err != nil {
		fmt.Fprintln(f, string(mustJSON(obj{"ev": "ScanRun", "ok": false, "panicked": panicked != "", "err": trunc(fmt.Sprint(err, panicked), 600)})))
		return nil
	}
	fmt.Fprintln(f, string(mustJSON(obj{"ev": "ScanRun", "ok": true, "panicked": false, "err": ""})))
	defs, _ := doc.(map[string]any)["definitions"].(map[string]any)
	for _, name := range sortedKeys(defs) {
		fmt.Fprintln(f, string(mustJSON(obj{"ev": "Scanned", "def": name, "schema": swaggerToAbs(defs[name])})))
	}
	return nil
}

// scan-calib: the reference validator's verdict (validate.AgainstSchema, which C16 names as oracle) on
// (model, value) pairs against the raw scanned document.
func init() { cmds["scan-calib"] = cmdScanCalib }

func cmdScanCalib(args []string) error {
	fs := flag.NewFlagSet("scan-calib", flag.ExitOnError)
	raw := fs.String("raw", "", "raw scanned document")
	inst := fs.String("instances", "", "ndjson {model, value(tagged)}")
	_ = fs.Parse(args)
	doc, err := loadsSpec(*raw)
	if err != nil {
		return err
	}
	rows, err := readNDJSON(*inst)
	if err != nil {
		return err
	}
	for i, r := range rows {
		sch, ok := doc.Spec().Definitions[r["model"].(string)]
		if !ok {
			continue
		}
		valid := refValidate(&sch, doc.Spec(), roundTrip(taggedToJSON(r["value"])))
		fmt.Println(string(mustJSON(obj{"i": i, "valid": valid})))
	}
	return nil
}
