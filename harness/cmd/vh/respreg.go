package main

// resp-registry: the responder types of a generated server package (types with a WriteResponse
// method), so that the driver can answer with the generated typed responders (C04).

import (
	"flag"
	"fmt"
	"go/ast"
	"go/parser"
	"go/token"
	"os"
	"sort"
	"strings"
)

func init() { cmds["resp-registry"] = cmdRespRegistry }

func cmdRespRegistry(args []string) error {
	fs := flag.NewFlagSet("resp-registry", flag.ExitOnError)
	dir := fs.String("pkg", "", "generated restapi/operations directory")
	imp := fs.String("import", "", "")
	out := fs.String("out", "respregistry.go", "")
	_ = fs.Parse(args)
	fset := token.NewFileSet()
	pkgs, err := parser.ParseDir(fset, *dir, nil, 0)
	if err != nil {
		return err
	}
	names := []string{}
	for _, p := range pkgs {
		for _, f := range p.Files {
			for _, d := range f.Decls {
				fd, ok := d.(*ast.FuncDecl)
				if !ok || fd.Recv == nil || fd.Name.Name != "WriteResponse" || len(fd.Recv.List) != 1 {
					continue
				}
				if st, ok := fd.Recv.List[0].Type.(*ast.StarExpr); ok {
					if id, ok := st.X.(*ast.Ident); ok {
						names = append(names, id.Name)
					}
				}
			}
		}
	}
	sort.Strings(names)
	var b strings.Builder
	fmt.Fprintf(&b, "package main\n\nimport ops %q\n\nvar respRegistry = map[string]func() any{\n", *imp)
	for _, n := range names {
		fmt.Fprintf(&b, "\t%q: func() any { return new(ops.%s) },\n", n, n)
	}
	b.WriteString("}\n")
	return os.WriteFile(*out, []byte(b.String()), 0o644)
}
