package main

// C07 driver: run swagger commands IN-PROCESS through the same go-flags command objects the CLI
// registers (so the exact GenOpts the CLI builds reach the library), repeatedly into the same target
// path, and concurrently on distinct targets; record a digest of everything written.

import (
	"bufio"
	"crypto/sha256"
	"encoding/hex"
	"flag"
	"fmt"
	"io"
	"log"
	"os"
	"path/filepath"
	"sort"
	"strings"
	"sync"

	"github.com/go-swagger/go-swagger/cmd/swagger/commands"
	"github.com/go-swagger/go-swagger/cmd/swagger/commands/generate"
	"github.com/go-swagger/go-swagger/generator"
	flags "github.com/jessevdk/go-flags"
)

// runLibrary calls the generator LIBRARY API (what C07 quantifies concurrency over) with the option
// values the CLI uses by default; the CLI's own option layer (go-flags, swag.AddInitialisms) is not
// involved.
func runLibrary(cmd, spec, target string) (err error) {
	defer func() {
		if r := recover(); r != nil {
			err = fmt.Errorf("panic: %v", r)
		}
	}()
	fl := &generate.FlattenCmdOptions{WithFlatten: []string{"minimal"}}
	opts := new(generator.GenOpts)
	opts.Spec, opts.Target = spec, target
	opts.APIPackage, opts.ModelPackage, opts.ServerPackage, opts.ClientPackage = "operations", "models", "restapi", "client"
	opts.ValidateSpec = true
	opts.FlattenOpts = fl.SetFlattenOptions(nil)
	opts.DefaultScheme, opts.DefaultProduces, opts.DefaultConsumes = "http", "application/json", "application/json"
	opts.IncludeModel, opts.IncludeValidator, opts.IncludeHandler, opts.IncludeParameters = true, true, true, true
	opts.IncludeResponses, opts.IncludeURLBuilder, opts.IncludeSupport, opts.IncludeMain = true, true, true, true
	opts.Name = "verif"
	opts.FlagStrategy, opts.CompatibilityMode = "go-flags", "modern"
	switch cmd {
	case "server":
	case "client":
		opts.IsClient = true
	case "cli":
		opts.IsClient = true
		opts.IncludeCLi = true
		opts.CliPackage = "cli"
		opts.CliAppName = "cli"
	case "model":
	case "markdown":
	}
	if cmd == "markdown" {
		generator.MarkdownSectionOpts(opts, filepath.Join(target, "doc.md"))
	}
	if err = opts.EnsureDefaults(); err != nil {
		return err
	}
	switch cmd {
	case "server":
		return generator.GenerateServer("verif", nil, nil, opts)
	case "client", "cli":
		return generator.GenerateClient("verif", nil, nil, opts)
	case "model":
		return generator.GenerateModels(nil, opts)
	case "markdown":
		return generator.GenerateMarkdown(filepath.Join(target, "doc.md"), nil, nil, opts)
	}
	return fmt.Errorf("unknown library command %s", cmd)
}

func init() { cmds["det-run"] = cmdDetRun }

func runSwagger(args []string) (err error) {
	defer func() {
		if r := recover(); r != nil {
			err = fmt.Errorf("panic: %v", r)
		}
	}()
	var opts struct{}
	parser := flags.NewParser(&opts, flags.HelpFlag|flags.PassDoubleDash)
	add := func(name string, data any) {
		if _, e := parser.AddCommand(name, name, name, data); e != nil {
			panic(e)
		}
	}
	add("expand", &commands.ExpandSpec{})
	add("flatten", &commands.FlattenSpec{})
	add("mixin", &commands.MixinSpec{})
	add("diff", &commands.DiffCommand{})
	add("validate", &commands.ValidateSpec{})
	add("generate", &commands.Generate{})
	_, err = parser.ParseArgs(args)
	return err
}

func digestPath(p string) string {
	h := sha256.New()
	info, err := os.Stat(p)
	if err != nil {
		return "missing"
	}
	if !info.IsDir() {
		b, _ := os.ReadFile(p)
		h.Write(b)
		return hex.EncodeToString(h.Sum(nil)[:8])
	}
	var files []string
	_ = filepath.Walk(p, func(q string, i os.FileInfo, e error) error {
		if e == nil && !i.IsDir() {
			files = append(files, q)
		}
		return nil
	})
	sort.Strings(files)
	for _, f := range files {
		rel, _ := filepath.Rel(p, f)
		b, _ := os.ReadFile(f)
		fmt.Fprintf(h, "%s\x00%d\x00", rel, len(b))
		h.Write(b)
	}
	return hex.EncodeToString(h.Sum(nil)[:8])
}

// per-file digests, to name the file that differs
func fileDigests(p string) map[string]string {
	out := map[string]string{}
	info, err := os.Stat(p)
	if err != nil {
		return out
	}
	if !info.IsDir() {
		out["."] = digestPath(p)
		return out
	}
	_ = filepath.Walk(p, func(q string, i os.FileInfo, e error) error {
		if e == nil && !i.IsDir() {
			rel, _ := filepath.Rel(p, q)
			out[rel] = digestPath(q)
		}
		return nil
	})
	return out
}

func subst(args []any, target string) []string {
	out := make([]string, len(args))
	for i, a := range args {
		out[i] = strings.ReplaceAll(a.(string), "{T}", target)
	}
	return out
}

func cmdDetRun(args []string) error {
	fs := flag.NewFlagSet("det-run", flag.ExitOnError)
	jobsPath := fs.String("jobs", "", "")
	work := fs.String("work", "", "a Go module directory")
	outPath := fs.String("out", "trace.ndjson", "")
	n := fs.Int("n", 8, "sequential repetitions per job")
	conc := fs.Int("conc", 0, "concurrent instances per job (0 = none)")
	useLib := fs.Bool("lib", false, "call the generator library API instead of the CLI command objects")
	_ = fs.Parse(args)
	log.SetOutput(io.Discard)
	jobs, err := readNDJSON(*jobsPath)
	if err != nil {
		return err
	}
	f, err := os.Create(*outPath)
	if err != nil {
		return err
	}
	defer f.Close()
	w := bufio.NewWriter(f)
	defer w.Flush()
	var mu sync.Mutex
	emit := func(e obj) {
		mu.Lock()
		defer mu.Unlock()
		w.Write(mustJSON(e))
		w.WriteByte('\n')
	}
	// stdout of commands that print (diff) must not pollute ours: they are given a destination file
	for _, j := range jobs {
		id := j["id"].(string)
		jargs := j["args"].([]any)
		output := j["output"].(string) // what to digest, {T}-relative
		run := func(target, mode string, rep int) {
			_ = os.RemoveAll(target)
			_ = os.MkdirAll(target, 0o755)
			var e error
			if lib, ok := j["lib"].(string); ok && *useLib {
				e = runLibrary(lib, j["spec"].(string), target)
			} else {
				e = runSwagger(subst(jargs, target))
			}
			out := strings.ReplaceAll(output, "{T}", target)
			ev := obj{"ev": "Run", "job": id, "mode": mode, "rep": rep, "target": filepath.Base(target), "exit": 0,
				"digest": digestPath(out), "files": fileDigests(out)}
			if e != nil {
				ev["exit"] = 1
				ev["err"] = trunc(e.Error(), 300)
				if ignoreErr, _ := j["errOK"].(bool); ignoreErr {
					ev["exit"] = 0
				}
			}
			emit(ev)
		}
		t0 := filepath.Join(*work, "t0")
		for r := 0; r < *n; r++ {
			run(t0, "seq", r)
		}
		if *conc > 0 {
			// baseline for every concurrent target path (import paths embed the target directory)
			for k := 1; k <= *conc; k++ {
				run(filepath.Join(*work, fmt.Sprintf("c%d", k)), "seq", 0)
			}
			var wg sync.WaitGroup
			for k := 1; k <= *conc; k++ {
				wg.Add(1)
				go func(k int) {
					defer wg.Done()
					run(filepath.Join(*work, fmt.Sprintf("c%d", k)), "conc", 0)
				}(k)
			}
			wg.Wait()
		}
	}
	return nil
}

func init() {
	cmds["digest"] = func(args []string) error {
		for _, a := range args {
			fmt.Println(string(mustJSON(obj{"path": a, "digest": digestPath(a), "files": fileDigests(a)})))
		}
		return nil
	}
}
