package main

// C03/C04: one document with one operation per parameter descriptor.

import (
	"flag"
	"fmt"
	"os"
)

func init() { cmds["param-materialise"] = cmdParamMaterialise }

func cmdParamMaterialise(args []string) error {
	fs := flag.NewFlagSet("param-materialise", flag.ExitOnError)
	casesPath := fs.String("cases", "", "ndjson: {p: descriptor}")
	out := fs.String("out", "spec.json", "")
	base := fs.Int("base", 0, "index of the first operation")
	media := fs.String("media", "operation", "where the form media type is declared: operation (own consumes) | document (inherited)")
	_ = fs.Parse(args)
	rows, err := readNDJSON(*casesPath)
	if err != nil {
		return err
	}
	paths := obj{}
	for i, r := range rows {
		if b, ok := r["body"].(string); ok { // body parameter: the schema inline
			op := obj{"operationId": fmt.Sprintf("op%d", *base+i), "responses": obj{"200": obj{"description": "ok"}},
				"x-verif-body": b, "consumes": []any{"application/json"},
				"parameters": []any{obj{"name": "body", "in": "body", "required": true, "schema": absSchema(r["schema"])}}}
			paths[fmt.Sprintf("/c03/op%d", *base+i)] = obj{"post": op}
			continue
		}
		if l, ok := r["resp"].(string); ok { // response layout operation (C04)
			resps := obj{}
			for code, rv := range r["responses"].(obj) {
				rr := obj{}
				for k, v := range rv.(obj) {
					switch k {
					case "schema":
						rr[k] = absSchema(v)
					case "headers":
						hm := obj{}
						for hk, hv := range v.(obj) {
							hm[hk] = absSchema(hv)
						}
						rr[k] = hm
					default:
						rr[k] = v
					}
				}
				if code != "default" {
					code = code[1:]
				}
				resps[code] = rr
			}
			paths["/c04/"+l] = obj{"post": obj{"operationId": l, "responses": resps}}
			continue
		}
		p := absSchema(r["p"]).(obj)
		path := fmt.Sprintf("/c03/op%d", *base+i)
		op := obj{"operationId": fmt.Sprintf("op%d", *base+i), "responses": obj{"200": obj{"description": "ok"}}}
		switch p["in"] {
		case "path":
			path += "/{p}"
		case "formData":
			if p["type"] == "file" {
				op["consumes"] = []any{"multipart/form-data"}
			} else if *media != "document" {
				op["consumes"] = []any{"application/x-www-form-urlencoded"}
			}
		}
		op["parameters"] = []any{p}
		paths[path] = obj{"post": op}
	}
	doc := obj{"swagger": "2.0", "info": obj{"title": "verif params", "version": "1"},
		"produces": []any{"application/json"}, "consumes": []any{"application/json"}, "paths": paths}
	if *media == "document" {
		// the document consumes forms and produces JSON; operations with form parameters inherit that
		doc["consumes"] = []any{"application/x-www-form-urlencoded"}
	}
	return os.WriteFile(*out, mustJSON(doc), 0o644)
}
