package main

// impl-gen: writes the backend package a server generated with --implementation-package expects
// (<impl>.New() returning something that implements restapi.Handler), from the interfaces declared in the
// generated auto_configure_<name>.go. Authentication follows the token classes of the C06 driver; every
// operation records that it was reached and with which principal.

import (
	"bytes"
	"flag"
	"fmt"
	"go/ast"
	"go/parser"
	"go/printer"
	"go/token"
	"os"
	"path/filepath"
	"sort"
	"strconv"
	"strings"
)

func init() { cmds["impl-gen"] = cmdImplGen }

func cmdImplGen(args []string) error {
	fs := flag.NewFlagSet("impl-gen", flag.ExitOnError)
	auto := fs.String("auto", "", "generated auto_configure_<name>.go")
	out := fs.String("out", "", "impl.go to write")
	pkg := fs.String("pkg", "impl", "")
	_ = fs.Parse(args)
	fset := token.NewFileSet()
	f, err := parser.ParseFile(fset, *auto, nil, 0)
	if err != nil {
		return err
	}
	imports := map[string]string{} // local name -> path
	for _, im := range f.Imports {
		p, _ := strconv.Unquote(im.Path.Value)
		name := filepath.Base(p)
		if im.Name != nil {
			name = im.Name.Name
		}
		imports[name] = p
	}
	pr := func(e ast.Expr) string {
		var b bytes.Buffer
		_ = printer.Fprint(&b, fset, e)
		return b.String()
	}
	used := map[string]bool{}
	note := func(s string) {
		for name := range imports {
			if strings.Contains(s, name+".") {
				used[name] = true
			}
		}
	}
	var body bytes.Buffer
	ast.Inspect(f, func(n ast.Node) bool {
		ts, ok := n.(*ast.TypeSpec)
		if !ok {
			return true
		}
		it, ok := ts.Type.(*ast.InterfaceType)
		if !ok || ts.Name.Name == "Handler" {
			return true
		}
		for _, m := range it.Methods.List {
			ft, ok := m.Type.(*ast.FuncType)
			if !ok || len(m.Names) == 0 {
				continue
			}
			name := m.Names[0].Name
			var ps, pts []string
			if ft.Params != nil {
				for _, p := range ft.Params.List {
					n := len(p.Names)
					if n == 0 {
						n = 1
					}
					for k := 0; k < n; k++ {
						t := pr(p.Type)
						note(t)
						pts = append(pts, t)
						ps = append(ps, fmt.Sprintf("p%d %s", len(ps), t))
					}
				}
			}
			var rs []string
			if ft.Results != nil {
				for _, r := range ft.Results.List {
					t := pr(r.Type)
					note(t)
					rs = append(rs, t)
				}
			}
			fmt.Fprintf(&body, "func (b *Backend) %s(%s) (%s) {\n", name, strings.Join(ps, ", "), strings.Join(rs, ", "))
			switch {
			case ts.Name.Name == "Authable":
				scheme := strings.ToLower(strings.TrimSuffix(name, "Auth"))
				switch {
				case len(pts) == 2 && pts[1] == "string": // basic: user, password
					fmt.Fprintf(&body, "\tif p0 == \"user\" && p1 == \"good-%s\" {\n\t\treturn %q, nil\n\t}\n\treturn nil, errors.New(401, \"invalid credentials for %s\")\n", scheme, scheme, scheme)
				case len(pts) == 2: // oauth2: token, scopes
					fmt.Fprintf(&body, "\tif strings.HasPrefix(p0, \"good-%s:\") {\n\t\tgranted := strings.Split(strings.TrimPrefix(p0, \"good-%s:\"), \",\")\n\t\tfor _, need := range p1 {\n\t\t\tfound := false\n\t\t\tfor _, g := range granted {\n\t\t\t\tif g == need {\n\t\t\t\t\tfound = true\n\t\t\t\t}\n\t\t\t}\n\t\t\tif !found {\n\t\t\t\treturn nil, errors.New(403, \"insufficient scope\")\n\t\t\t}\n\t\t}\n\t\treturn %q, nil\n\t}\n\treturn nil, errors.New(401, \"invalid credentials for %s\")\n", scheme, scheme, scheme, scheme)
				default:
					fmt.Fprintf(&body, "\tif p0 == \"good-%s\" {\n\t\treturn %q, nil\n\t}\n\treturn nil, errors.New(401, \"invalid credentials for %s\")\n", scheme, scheme, scheme)
				}
			case ts.Name.Name == "Configurable":
				switch name {
				case "SetupMiddlewares", "SetupGlobalMiddleware":
					body.WriteString("\treturn p0\n")
				case "CustomConfigure":
					body.WriteString("\tp0.Logger = func(string, ...interface{}) {}\n\tp0.APIAuthorizer = runtime.AuthorizerFunc(func(r *http.Request, _ interface{}) error {\n\t\tif r.Header.Get(\"X-Verif-Deny\") != \"\" {\n\t\t\treturn errors.New(403, \"denied by the authorizer\")\n\t\t}\n\t\treturn nil\n\t})\n")
				}
			default: // an operation
				body.WriteString("\tCur.Reached = true\n")
				fmt.Fprintf(&body, "\tCur.Handler = %q\n\tCur.Principal = \"none\"\n", name)
				if len(ps) > 1 {
					body.WriteString("\tif p1 != nil {\n\t\tCur.Principal = fmt.Sprint(p1)\n\t}\n")
				}
				body.WriteString("\treturn middleware.ResponderFunc(func(w http.ResponseWriter, _ runtime.Producer) {\n\t\tw.Header().Set(\"Content-Type\", \"application/json\")\n\t\tw.WriteHeader(200)\n\t\t_, _ = w.Write([]byte(`{\"ok\":true}`))\n\t})\n")
			}
			body.WriteString("}\n\n")
		}
		return true
	})
	for _, n := range []string{"errors", "runtime", "middleware"} {
		used[n] = true
	}
	var src bytes.Buffer
	fmt.Fprintf(&src, "// Package %s is the backend of an auto-configured generated server (written by vh impl-gen).\npackage %s\n\nimport (\n\t\"fmt\"\n\t\"net/http\"\n\t\"strings\"\n\n", *pkg, *pkg)
	names := []string{}
	for n := range used {
		names = append(names, n)
	}
	sort.Strings(names)
	for _, n := range names {
		p, ok := imports[n]
		if !ok || p == "net/http" {
			continue
		}
		if filepath.Base(p) == n {
			fmt.Fprintf(&src, "\t%q\n", p)
		} else {
			fmt.Fprintf(&src, "\t%s %q\n", n, p)
		}
	}
	src.WriteString(")\n\nvar _ = fmt.Sprint\nvar _ = strings.ToLower\nvar _ http.Handler\n\n// Cur records what the last request reached.\nvar Cur struct {\n\tReached   bool\n\tHandler   string\n\tPrincipal string\n}\n\n// Backend implements the Handler interface of the generated server.\ntype Backend struct{}\n\n// New is what the generated auto-configuration calls.\nfunc New() *Backend { return &Backend{} }\n\n")
	src.Write(body.Bytes())
	return os.WriteFile(*out, src.Bytes(), 0o644)
}
