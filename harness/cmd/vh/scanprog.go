package main

// scan-programs (C17): run the REAL codescan.Run on each generated program (package directory inside
// one module), validate the result with validate.Spec (trusted), and abstract the document to the
// record shape of Annot.tla.

import (
	"encoding/json"
	"flag"
	"fmt"
	"os"
	"path/filepath"
	"runtime"
	"runtime/debug"
	"sort"
	"strings"
	"sync"

	"github.com/go-openapi/loads"
	"github.com/go-openapi/spec"
	"github.com/go-openapi/strfmt"
	"github.com/go-openapi/validate"
	"github.com/go-swagger/go-swagger/codescan"
)

func init() { cmds["scan-programs"] = cmdScanPrograms }

func refName(r spec.Ref) string {
	s := r.String()
	return s[strings.LastIndex(s, "/")+1:]
}

// respRef is the reference a response entry carries: "#/responses/x" for a named response, the
// schema's $ref (a definition) when the entry is an inline response around a model, "" otherwise.
func respRef(r *spec.Response) string {
	if s := r.Ref.String(); s != "" {
		return s
	}
	if r.Schema != nil {
		return "schema:" + r.Schema.Ref.String()
	}
	return ""
}

func intOr(v *float64) any {
	if v == nil {
		return nil
	}
	return int64(*v)
}

func absParam(p spec.Parameter) obj {
	o := obj{"name": p.Name, "loc": p.In, "required": p.Required}
	if p.In == "body" {
		if p.Schema != nil {
			o["ref"] = refName(p.Schema.Ref)
		}
		return o
	}
	o["type"] = p.Type
	if p.Format != "" {
		o["format"] = p.Format
	}
	if p.Minimum != nil {
		o["minimum"] = int64(*p.Minimum)
	}
	if p.Maximum != nil {
		o["maximum"] = int64(*p.Maximum)
	}
	if p.MinLength != nil {
		o["minLength"] = *p.MinLength
	}
	if p.MaxLength != nil {
		o["maxLength"] = *p.MaxLength
	}
	if p.MinItems != nil {
		o["minItems"] = *p.MinItems
	}
	if p.CollectionFormat != "" {
		o["collectionFormat"] = p.CollectionFormat
	}
	if len(p.Enum) > 0 {
		l := []any{}
		for _, v := range p.Enum {
			l = append(l, fmt.Sprint(v))
		}
		o["enum"] = l
	}
	if p.Default != nil {
		o["default"] = fmt.Sprint(p.Default)
	}
	if p.Items != nil {
		o["itemsType"] = p.Items.Type
		if p.Items.MinLength != nil {
			o["itemsMinLength"] = *p.Items.MinLength
		}
		if p.Items.Minimum != nil {
			o["itemsMinimum"] = int64(*p.Items.Minimum)
		}
		if p.Items.Maximum != nil {
			o["itemsMaximum"] = int64(*p.Items.Maximum)
		}
	}
	return o
}

func strs(l []string) []any {
	out := []any{}
	for _, s := range l {
		out = append(out, s)
	}
	return out
}

func scanOne(dir, input string) obj {
	res := obj{"panicked": false, "failed": false, "valid": false, "ops": []any{}, "models": obj{}, "err": "", "mergedKept": true}
	var sw *spec.Swagger
	func() {
		defer func() {
			if r := recover(); r != nil {
				res["panicked"] = true
				res["err"] = trunc(fmt.Sprint(r)+"\n"+string(debug.Stack()), 1500)
			}
		}()
		opts := &codescan.Options{Packages: []string{"."}, WorkDir: dir, ScanModels: true}
		if input != "" {
			doc, err := loads.Spec(input)
			if err != nil {
				res["failed"], res["err"] = true, err.Error()
				return
			}
			opts.InputSpec = doc.Spec()
		}
		var err error
		sw, err = codescan.Run(opts)
		if err != nil {
			res["failed"], res["err"] = true, trunc(err.Error(), 400)
		}
	}()
	if sw == nil {
		return res
	}
	b, err := json.Marshal(sw)
	if err != nil {
		res["failed"], res["err"] = true, err.Error()
		return res
	}
	if doc, err := loads.Analyzed(b, ""); err == nil {
		if verr := validate.Spec(doc, strfmt.Default); verr == nil {
			res["valid"] = true
		} else {
			res["err"] = trunc(verr.Error(), 500)
		}
	} else {
		res["err"] = err.Error()
	}
	ops := []any{}
	if sw.Paths != nil {
		paths := make([]string, 0)
		for p := range sw.Paths.Paths {
			paths = append(paths, p)
		}
		sort.Strings(paths)
		for _, p := range paths {
			pi := sw.Paths.Paths[p]
			for m, op := range map[string]*spec.Operation{"GET": pi.Get, "POST": pi.Post, "PUT": pi.Put, "DELETE": pi.Delete, "PATCH": pi.Patch, "HEAD": pi.Head, "OPTIONS": pi.Options} {
				if op == nil {
					continue
				}
				o := obj{"method": m, "path": p, "id": op.ID, "tags": strs(op.Tags), "consumes": strs(op.Consumes), "produces": strs(op.Produces),
					"schemes": strs(op.Schemes), "deprecated": op.Deprecated}
				ps := []any{}
				for _, prm := range op.Parameters {
					ps = append(ps, absParam(prm))
				}
				o["params"] = ps
				rs := obj{}
				if op.Responses != nil {
					if op.Responses.Default != nil {
						rs["default"] = respRef(op.Responses.Default)
					}
					for code, r := range op.Responses.StatusCodeResponses {
						rs[fmt.Sprintf("r%d", code)] = respRef(&r)
					}
				}
				o["responses"] = rs
				ops = append(ops, o)
			}
		}
	}
	res["ops"] = ops
	models := obj{}
	for name, d := range sw.Definitions {
		props := []any{}
		for k := range d.Properties {
			props = append(props, k)
		}
		models[name] = obj{"props": props, "required": strs(d.Required)}
	}
	res["models"] = models
	if input != "" {
		// everything the input declares is still there
		kept := true
		if in, err := loads.Spec(input); err == nil && in.Spec() != nil {
			if in.Spec().Paths != nil {
				for p := range in.Spec().Paths.Paths {
					if _, ok := sw.Paths.Paths[p]; !ok {
						kept = false
					}
				}
			}
			for d := range in.Spec().Definitions {
				if _, ok := sw.Definitions[d]; !ok {
					kept = false
				}
			}
		}
		res["mergedKept"] = kept
	}
	return res
}

func cmdScanPrograms(args []string) error {
	fs := flag.NewFlagSet("scan-programs", flag.ExitOnError)
	root := fs.String("root", "", "module directory containing one package directory per program (p0, p1, ...)")
	n := fs.Int("n", 0, "number of programs")
	out := fs.String("out", "scanned.ndjson", "")
	_ = fs.Parse(args)
	results := make([]obj, *n)
	var wg sync.WaitGroup
	sem := make(chan struct{}, runtime.NumCPU())
	for i := 0; i < *n; i++ {
		wg.Add(1)
		sem <- struct{}{}
		go func(i int) {
			defer wg.Done()
			defer func() { <-sem }()
			dir := filepath.Join(*root, fmt.Sprintf("p%d", i))
			input := filepath.Join(dir, "input.json")
			if _, err := os.Stat(input); err != nil {
				input = ""
			}
			if _, err := os.Stat(filepath.Join(dir, "selfmerge")); err == nil {
				// first scan without input; its output is the input of the scan that is judged
				if first, err := codescan.Run(&codescan.Options{Packages: []string{"."}, WorkDir: dir, ScanModels: true}); err == nil && first != nil {
					if b, err := json.Marshal(first); err == nil {
						input = filepath.Join(dir, "self-input.json")
						_ = os.WriteFile(input, b, 0o644)
					}
				}
			}
			results[i] = scanOne(dir, input)
			results[i]["i"] = i
		}(i)
	}
	wg.Wait()
	f, err := os.Create(*out)
	if err != nil {
		return err
	}
	defer f.Close()
	for _, r := range results {
		fmt.Fprintln(f, string(mustJSON(r)))
	}
	return nil
}
