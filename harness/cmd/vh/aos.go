package main

// Materialisation of abstract specs (DESIGN.md 3.2): abstract schemas / parameter descriptors / tagged
// values produced by TLC are translated 1:1 into Swagger JSON. Nothing here computes an expectation.

import (
	"encoding/json"
	"fmt"
	"sort"
	"strings"
)

type obj = map[string]any

// pattern menu (JsonSchema!PatSet)
var patMenu = map[string]string{
	"P_a_prefix": "^a",
	"P_has_b":    "b",
	"P_len2":     "^..$",
	"P_digits":   "^[0-9]+$",
}

func descale(n any) any {
	f, ok := toFloat(n)
	if !ok {
		return n
	}
	if int64(f)%2 == 0 {
		return int64(f) / 2
	}
	return f / 2
}

func toFloat(n any) (float64, bool) {
	switch x := n.(type) {
	case float64:
		return x, true
	case int:
		return float64(x), true
	case int64:
		return float64(x), true
	case json.Number:
		f, err := x.Float64()
		return f, err == nil
	}
	return 0, false
}

// taggedToJSON turns a tagged tuple <<tag, payload>> (JSON array) into a plain JSON value (numbers de-scaled).
func taggedToJSON(v any) any {
	m, ok := v.([]any)
	if !ok || len(m) == 0 {
		return v
	}
	var pay any
	if len(m) > 1 {
		pay = m[1]
	}
	switch m[0] {
	case "null":
		return nil
	case "num":
		return descale(pay)
	case "str", "bool":
		return pay
	case "arr":
		out := []any{}
		if l, ok := pay.([]any); ok {
			for _, e := range l {
				out = append(out, taggedToJSON(e))
			}
		}
		return out
	case "obj":
		out := obj{}
		if mm, ok := pay.(obj); ok {
			for k, e := range mm {
				out[k] = taggedToJSON(e)
			}
		}
		return out
	}
	return v
}

// jsonToTagged is the inverse; numbers that are not multiples of 1/2 or beyond 2^30 are carried as
// {"t":"numx","v":"<literal>"} so that TLC never sees a float or a big integer.
func jsonToTagged(v any) any {
	switch x := v.(type) {
	case nil:
		return []any{"null"}
	case bool:
		return []any{"bool", x}
	case string:
		return []any{"str", x}
	case json.Number:
		f, err := x.Float64()
		if err == nil {
			d := f * 2
			if d == float64(int64(d)) && d < 1<<30 && d > -(1<<30) {
				return []any{"num", int64(d)}
			}
		}
		return []any{"numx", x.String()}
	case float64:
		d := x * 2
		if d == float64(int64(d)) && d < 1<<30 && d > -(1<<30) {
			return []any{"num", int64(d)}
		}
		return []any{"numx", fmt.Sprint(x)}
	case []any:
		out := []any{}
		for _, e := range x {
			out = append(out, jsonToTagged(e))
		}
		return []any{"arr", out}
	case map[string]any:
		out := obj{}
		for k, e := range x {
			out[k] = jsonToTagged(e)
		}
		return []any{"obj", out}
	}
	return []any{"str", fmt.Sprint(v)}
}

func isNumericType(t any) bool { return t == "integer" || t == "number" }

var scaledKeys = map[string]bool{"minimum": true, "maximum": true, "multipleOf": true}

// absSchema translates an abstract schema (JsonSchema.tla) into a Swagger schema object.
func absSchema(s any) any {
	m, ok := s.(obj)
	if !ok {
		return s
	}
	out := obj{}
	for k, v := range m {
		switch {
		case k == "ref":
			out["$ref"] = "#/definitions/" + v.(string)
		case k == "noAdditional":
			if b, _ := v.(bool); b {
				out["additionalProperties"] = false
			}
		case k == "additionalProperties":
			if l, isList := v.([]any); isList && len(l) == 0 { // the empty schema (TLC prints the empty record as [])
				out[k] = true
			} else {
				out[k] = absSchema(v)
			}
		case k == "itemsTuple":
			l := []any{}
			if ll, ok := v.([]any); ok {
				for _, e := range ll {
					l = append(l, absSchema(e))
				}
			}
			out["items"] = l
		case k == "items":
			out[k] = absSchema(v)
		case k == "properties":
			pm := obj{}
			if mm, ok := v.(obj); ok {
				for pk, pv := range mm {
					pm[pk] = absSchema(pv)
				}
			}
			out[k] = pm
		case k == "allOf":
			l := []any{}
			if ll, ok := v.([]any); ok {
				for _, e := range ll {
					l = append(l, absSchema(e))
				}
			}
			out[k] = l
		case k == "pattern":
			if rx, ok := patMenu[fmt.Sprint(v)]; ok {
				out[k] = rx
			} else {
				out[k] = v
			}
		case k == "enum":
			l := []any{}
			if ll, ok := v.([]any); ok {
				for _, e := range ll {
					if isNumericType(m["type"]) {
						l = append(l, descale(e))
					} else {
						l = append(l, e)
					}
				}
			}
			out[k] = l
		case k == "enumT": // enum of a non-scalar schema: tagged values
			l := []any{}
			if ll, ok := v.([]any); ok {
				for _, e := range ll {
					l = append(l, taggedToJSON(e))
				}
			}
			out["enum"] = l
		case k == "default" || k == "example":
			out[k] = taggedToJSON(v)
		case scaledKeys[k]:
			out[k] = descale(v)
		case k == "cf":
			out["collectionFormat"] = v
		case k == "allowEmpty":
			out["allowEmptyValue"] = v
		case k == "enumCI":
			out["x-go-enum-ci"] = v
		default:
			out[k] = v
		}
	}
	return out
}

// aosToSwagger materialises an abstract one-operation spec (DiffModel!BaseAOS shape).
func aosToSwagger(a obj) obj {
	doc := obj{
		"swagger":  "2.0",
		"info":     obj{"title": "verif", "version": "1.0"},
		"produces": []any{"application/json"},
		"paths":    obj{},
	}
	for _, k := range []string{"produces", "schemes"} {
		if c, ok := a[k].([]any); ok && len(c) > 0 {
			doc[k] = c
		}
	}
	for _, k := range []string{"host", "basePath"} {
		if c, ok := a[k].(string); ok {
			doc[k] = c
		}
	}
	if c, ok := a["consumes"].([]any); ok && len(c) > 0 {
		doc["consumes"] = c
	}
	if defs, ok := a["defs"].(obj); ok && len(defs) > 0 {
		dm := obj{}
		for k, v := range defs {
			dm[k] = absSchema(v)
		}
		doc["definitions"] = dm
	}
	if p, _ := a["present"].(bool); !p {
		// keep the document valid: another, unrelated endpoint
		doc["paths"] = obj{"/other": obj{"get": obj{"operationId": "other", "responses": obj{"200": obj{"description": "ok"}}}}}
		return doc
	}
	params := []any{}
	path := "/x"
	if pl, ok := a["params"].([]any); ok {
		for _, p := range pl {
			pm := absSchema(p).(obj)
			if pm["in"] == "path" {
				path = "/x/{" + pm["name"].(string) + "}"
			}
			params = append(params, pm)
		}
	}
	if b, ok := a["body"]; ok {
		params = append(params, obj{"name": "body", "in": "body", "required": true, "schema": absSchema(b)})
	}
	resps := obj{}
	if rm, ok := a["responses"].(obj); ok {
		for code, r := range rm {
			rr := obj{}
			for k, v := range r.(obj) {
				switch k {
				case "schema":
					rr[k] = absSchema(v)
				case "headers":
					hm := obj{}
					for hk, hv := range v.(obj) {
						hm[hk] = absSchema(hv)
					}
					rr[k] = hm
				default:
					rr[k] = v
				}
			}
			if _, ok := rr["description"]; !ok {
				rr["description"] = "r"
			}
			resps[strings.TrimPrefix(code, "r")] = rr
		}
	}
	op := obj{"operationId": "op", "parameters": params, "responses": resps}
	var pathLevel []any
	if v, ok := a["pathLevel"].(bool); ok && v {
		// the simple parameters are declared at path level; a body parameter stays with the operation
		keep := []any{}
		for _, p := range params {
			if pm, ok := p.(obj); ok && pm["in"] != "body" {
				pathLevel = append(pathLevel, p)
			} else {
				keep = append(keep, p)
			}
		}
		op["parameters"] = keep
	}
	if d, ok := a["opdesc"].(string); ok {
		op["description"] = d
	}
	if t, ok := a["tags"].([]any); ok {
		op["tags"] = t
	}
	if ext, ok := a["ext"].(obj); ok {
		for k, v := range ext {
			if v == "NULL" { // JSON null: the key is there, the value is not
				v = nil
			}
			op["x-"+k] = v
		}
	}
	pi := obj{"post": op}
	if sh, ok := a["pathShadow"].([]any); ok {
		// parameters the path item shares, which the operation re-declares (and thereby overrides)
		for _, p := range sh {
			pathLevel = append(pathLevel, absSchema(p))
		}
	}
	if len(pathLevel) > 0 {
		pi["parameters"] = pathLevel
	}
	doc["paths"] = obj{path: pi, "/other": obj{"get": obj{"operationId": "other", "responses": obj{"200": obj{"description": "ok"}}}}}
	return doc
}

func sortedKeys(m obj) []string {
	ks := make([]string, 0, len(m))
	for k := range m {
		ks = append(ks, k)
	}
	sort.Strings(ks)
	return ks
}

func mustJSON(v any) []byte {
	b, err := json.Marshal(v)
	if err != nil {
		panic(err)
	}
	return b
}
