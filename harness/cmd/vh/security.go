package main

// C06: materialise one document per global requirement with one operation per requirement shape.

import (
	"flag"
	"fmt"
	"os"
)

func init() { cmds["sec-materialise"] = cmdSecMaterialise }

func secReq(alts any) []any {
	out := []any{}
	l, _ := alts.([]any)
	for _, a := range l {
		m := obj{}
		if al, ok := a.([]any); ok {
			for _, s := range al {
				if s == "oauth" {
					m["oauth"] = []any{"read"}
				} else {
					m[s.(string)] = []any{}
				}
			}
		}
		out = append(out, m)
	}
	return out
}

func cmdSecMaterialise(args []string) error {
	fs := flag.NewFlagSet("sec-materialise", flag.ExitOnError)
	casesPath := fs.String("cases", "", "cases of one global requirement, in operation order")
	out := fs.String("out", "spec.json", "")
	_ = fs.Parse(args)
	rows, err := readNDJSON(*casesPath)
	if err != nil {
		return err
	}
	doc := obj{"swagger": "2.0", "info": obj{"title": "verif security", "version": "1"},
		"produces": []any{"application/json"}, "consumes": []any{"application/json"},
		"securityDefinitions": obj{
			"key":   obj{"type": "apiKey", "in": "header", "name": "X-Key"},
			"qkey":  obj{"type": "apiKey", "in": "query", "name": "qkey"},
			"basic": obj{"type": "basic"},
			"oauth": obj{"type": "oauth2", "flow": "accessCode", "authorizationUrl": "https://example.com/auth",
				"tokenUrl": "https://example.com/token", "scopes": obj{"read": "read", "write": "write"}},
		}}
	paths := obj{}
	for i, r := range rows {
		if i == 0 {
			if has, _ := r["ghas"].(bool); has {
				doc["security"] = secReq(r["galts"])
			}
		}
		// every operation declares a required, constrained parameter: a request without it is invalid, and
		// whether that is noticed before or after authentication is part of what C06 observes
		op := obj{"operationId": fmt.Sprintf("op%d", i), "responses": obj{"200": obj{"description": "ok"}},
			"parameters": []any{obj{"name": "limit", "in": "query", "type": "integer", "required": true, "minimum": 1}}}
		if inh, _ := r["inherit"].(bool); !inh {
			op["security"] = secReq(r["own"])
		}
		// tags chosen by the caller: generation may be restricted to the operations of one of them (--tags sel)
		if t, ok := r["tag"].(string); ok {
			op["tags"] = []any{t}
		}
		paths[fmt.Sprintf("/op%d", i)] = obj{"get": op}
	}
	doc["paths"] = paths
	return os.WriteFile(*out, mustJSON(doc), 0o644)
}
