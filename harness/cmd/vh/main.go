package main

import (
	"fmt"
	"os"
)

type cmdFn func(args []string) error

var cmds = map[string]cmdFn{}

func main() {
	if len(os.Args) < 2 {
		fmt.Fprintln(os.Stderr, "usage: vh <cmd> ...")
		os.Exit(2)
	}
	f, ok := cmds[os.Args[1]]
	if !ok {
		fmt.Fprintln(os.Stderr, "unknown command", os.Args[1])
		os.Exit(2)
	}
	if err := f(os.Args[2:]); err != nil {
		fmt.Fprintln(os.Stderr, "vh:", err)
		os.Exit(2)
	}
}
