package main

import (
	"github.com/go-openapi/loads"
	"github.com/go-openapi/spec"
	"github.com/go-openapi/strfmt"
	"github.com/go-openapi/validate"
)

func loadsSpec(path string) (*loads.Document, error) { return loads.Spec(path) }

func refValidate(sch *spec.Schema, root any, data any) bool {
	defer func() { _ = recover() }()
	v := validate.NewSchemaValidator(sch, root, "", strfmt.Default)
	return v.Validate(data).IsValid()
}
