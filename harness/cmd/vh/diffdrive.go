package main

// Driver for the diff family (C12-C15): materialise the two documents of a case, run the REAL
// diff.Compare in-process (both directions) and the REAL `swagger diff` binary, record events.

import (
	"bufio"
	"bytes"
	"context"
	"encoding/json"
	"flag"
	"fmt"
	"os"
	"os/exec"
	"path/filepath"
	"runtime"
	"runtime/debug"
	"sort"
	"strings"
	"sync"
	"sync/atomic"
	"time"

	"github.com/go-openapi/loads"
	"github.com/go-openapi/spec"
	"github.com/go-openapi/strfmt"
	"github.com/go-openapi/validate"
	"github.com/go-swagger/go-swagger/cmd/swagger/commands/diff"
)

func init() { cmds["diff-drive"] = cmdDiffDrive }

type diffEntry struct {
	ID     string `json:"id"`     // canonical JSON of the entry as reported (identity for C15)
	Loc    string `json:"loc"`    // url|method|response|field.path (C14 latitude: no type decoration)
	Code   string `json:"code"`   // change code as marshalled by the tool
	GoCode string `json:"gocode"` // name of the Go constant (mirror map is defined on constants)
	Compat string `json:"compat"`
	Info   string `json:"info"`
	Text   string `json:"text"` // String() rendering (one line of the text report)
}

func canon(v any) string {
	b, _ := json.Marshal(v) // map keys are sorted by encoding/json
	return string(b)
}

func nodePath(n any) string {
	parts := []string{}
	for n != nil {
		m, ok := n.(map[string]any)
		if !ok {
			break
		}
		name, _ := m["name"].(string)
		parts = append(parts, name)
		n = m["child"]
	}
	return strings.Join(parts, ".")
}

func entriesFromJSON(raw []byte) ([]diffEntry, error) {
	var generic []map[string]any
	dec := json.NewDecoder(bytes.NewReader(raw))
	dec.UseNumber()
	if err := dec.Decode(&generic); err != nil {
		return nil, err
	}
	var typed diff.SpecDifferences
	_ = json.Unmarshal(raw, &typed)
	out := make([]diffEntry, 0, len(generic))
	for i, g := range generic {
		e := diffEntry{ID: canon(g)}
		loc, _ := g["location"].(map[string]any)
		url, _ := loc["url"].(string)
		method, _ := loc["method"].(string)
		resp := ""
		if r, ok := loc["response"]; ok {
			resp = fmt.Sprint(r)
		}
		e.Loc = url + "|" + method + "|" + resp + "|" + nodePath(loc["node"])
		e.Code, _ = g["code"].(string)
		e.Compat, _ = g["compatibility"].(string)
		e.Info, _ = g["info"].(string)
		if i < len(typed) {
			e.Text = typed[i].String()
			e.GoCode = goCodeName(typed[i].Code)
		}
		out = append(out, e)
	}
	return out, nil
}

type cmpResult struct {
	Entries  []diffEntry
	Panicked bool
	PanicAt  string
	TimedOut bool
	Err      string
}

func panicSite(stack []byte) string {
	// deepest frame inside the diff package: "github.com/.../commands/diff.(*SpecAnalyser).compareSchema(0x..."
	sc := bufio.NewScanner(bytes.NewReader(stack))
	for sc.Scan() {
		l := strings.TrimSpace(sc.Text())
		i := strings.Index(l, "commands/diff.")
		if i < 0 || strings.HasPrefix(l, "/") {
			continue
		}
		fn := l[i+len("commands/diff."):]
		if j := strings.LastIndex(fn, "("); j > 0 {
			fn = fn[:j]
		}
		if strings.HasPrefix(fn, "Compare") && strings.Contains(fn, "func") {
			continue
		}
		return fn
	}
	return "unknown"
}

func firstNonEmpty(a, b string) string {
	if a != "" {
		return a
	}
	return b
}

// A comparison that does not terminate cannot be stopped (goroutines cannot be killed): it keeps a core and
// allocates without bound. After a timeout - or when the heap passes guardHeap - no new case is started;
// the driver writes what it has and exits, which ends the runaway goroutines. The timed-out cases are in
// the trace (timedOut: true); the cases not started are counted on stderr ("RUNAWAY ...").
var (
	runaways  int32
	abortFlag int32
	skipped   int32
)

const guardHeap = 6 << 30

func aborted() bool {
	if atomic.LoadInt32(&abortFlag) != 0 {
		atomic.AddInt32(&skipped, 1)
		return true
	}
	return false
}

func startGuard() {
	go func() {
		var ms runtime.MemStats
		for {
			time.Sleep(250 * time.Millisecond)
			runtime.ReadMemStats(&ms)
			if ms.HeapAlloc > guardHeap || atomic.LoadInt32(&runaways) >= 2 {
				atomic.StoreInt32(&abortFlag, 1)
			}
			if ms.HeapAlloc > 3*guardHeap { // nothing else helps
				fmt.Fprintln(os.Stderr, "RUNAWAY heap exhausted, leaving")
				os.Exit(3)
			}
		}
	}()
}

func reportRunaway() {
	if n := atomic.LoadInt32(&runaways); n > 0 {
		fmt.Fprintf(os.Stderr, "RUNAWAY %d comparison(s) did not terminate; %d case(s) not started\n", n, atomic.LoadInt32(&skipped))
	}
}

func compareSafe(a, b *spec.Swagger, timeout time.Duration) cmpResult {
	ch := make(chan cmpResult, 1)
	go func() {
		var res cmpResult
		defer func() {
			if r := recover(); r != nil {
				res.Panicked = true
				res.PanicAt = panicSite(debug.Stack())
				res.Err = fmt.Sprint(r)
			}
			ch <- res
		}()
		ds, err := diff.Compare(a, b)
		if err != nil {
			res.Err = err.Error()
			return
		}
		raw, err := diff.JSONMarshal(ds)
		if err != nil {
			res.Err = err.Error()
			return
		}
		res.Entries, err = entriesFromJSON(raw)
		if err != nil {
			res.Err = err.Error()
		}
	}()
	select {
	case r := <-ch:
		return r
	case <-time.After(timeout):
		atomic.AddInt32(&runaways, 1)
		return cmpResult{TimedOut: true}
	}
}

func loadDoc(path string) (*spec.Swagger, error) {
	d, err := loads.Spec(path)
	if err != nil {
		return nil, err
	}
	return d.Spec(), nil
}

type cliResult struct {
	Exit   int
	Stdout string
	Stderr string
}

func runCLI(bin string, args ...string) cliResult {
	ctx, cancel := context.WithTimeout(context.Background(), 45*time.Second)
	defer cancel()
	cmd := exec.CommandContext(ctx, bin, args...)
	var so, se bytes.Buffer
	cmd.Stdout, cmd.Stderr = &so, &se
	err := cmd.Run()
	res := cliResult{Stdout: so.String(), Stderr: se.String()}
	if ctx.Err() != nil {
		// the command did not terminate: reported like a crash (C12: never panics or loops)
		return cliResult{Exit: 124, Stdout: res.Stdout, Stderr: res.Stderr + "\npanic: (harness) the command did not terminate within 45s and was killed"}
	}
	if err != nil {
		if ee, ok := err.(*exec.ExitError); ok {
			res.Exit = ee.ExitCode()
		} else {
			res.Exit = -1
			res.Stderr += err.Error()
		}
	}
	return res
}

// reference validation of the witness (calibration, two-oracle rule)
func refAccepts(doc obj, aos obj, w obj) (accepts bool, decided bool) {
	raw := mustJSON(doc)
	d, err := loads.Analyzed(raw, "")
	if err != nil {
		return false, false
	}
	sw := d.Spec()
	var op *spec.Operation
	for p, pi := range sw.Paths.Paths {
		if strings.HasPrefix(p, "/x") {
			op = pi.Post
		}
	}
	if op == nil {
		return false, true
	}
	if body, ok := w["body"]; ok {
		for _, p := range op.Parameters {
			if p.In == "body" {
				v := validate.NewSchemaValidator(p.Schema, sw, "", strfmt.Default)
				data := roundTrip(taggedToJSON(body))
				res := v.Validate(data)
				return res.IsValid(), true
			}
		}
		return true, true
	}
	val, ok := w["val"]
	if !ok {
		return false, false
	}
	for _, p := range op.Parameters {
		if p.Name == "p" && p.In != "body" {
			// the parameter as a schema
			sch := obj{}
			pj, _ := json.Marshal(p)
			var pm obj
			_ = json.Unmarshal(pj, &pm)
			for _, k := range []string{"type", "format", "enum", "minimum", "maximum", "exclusiveMinimum", "exclusiveMaximum", "multipleOf", "minLength", "maxLength", "pattern", "minItems", "maxItems", "uniqueItems", "items"} {
				if v, ok := pm[k]; ok {
					sch[k] = v
				}
			}
			var s spec.Schema
			_ = json.Unmarshal(mustJSON(sch), &s)
			res := validate.NewSchemaValidator(&s, nil, "", strfmt.Default).Validate(roundTrip(taggedToJSON(val)))
			return res.IsValid(), true
		}
	}
	return false, false
}

func roundTrip(v any) any {
	var out any
	_ = json.Unmarshal(mustJSON(v), &out)
	return out
}

func cmdDiffDrive(args []string) error {
	fs := flag.NewFlagSet("diff-drive", flag.ExitOnError)
	casesPath := fs.String("cases", "", "cases.ndjson from GenDiff")
	outPath := fs.String("out", "trace.ndjson", "trace output")
	bin := fs.String("swagger", "", "swagger binary built from /repo")
	work := fs.String("work", "", "scratch directory")
	mode := fs.String("mode", "c13", "c13|c14|c15")
	seed := fs.Int64("seed", 1, "seed for subset choice (c15)")
	jobs := fs.Int("j", runtime.NumCPU(), "parallel workers")
	_ = fs.Parse(args)

	cases, err := readNDJSON(*casesPath)
	if err != nil {
		return err
	}
	startGuard()
	defer reportRunaway()
	type result struct{ events []obj }
	results := make([]result, len(cases))
	var wg sync.WaitGroup
	sem := make(chan struct{}, *jobs)
	for i := range cases {
		wg.Add(1)
		sem <- struct{}{}
		go func(i int) {
			defer wg.Done()
			defer func() { <-sem }()
			if aborted() {
				return
			}
			results[i].events = driveDiffCase(i, cases[i], *bin, *work, *mode, *seed)
		}(i)
	}
	wg.Wait()
	f, err := os.Create(*outPath)
	if err != nil {
		return err
	}
	defer f.Close()
	w := bufio.NewWriter(f)
	defer w.Flush()
	for _, r := range results {
		for _, e := range r.events {
			w.Write(mustJSON(e))
			w.WriteByte('\n')
		}
	}
	return nil
}

func entriesForTrace(es []diffEntry, full bool) []any {
	out := []any{}
	for _, e := range es {
		if full {
			out = append(out, obj{"id": e.ID, "compat": e.Compat, "loc": e.Loc, "code": e.GoCode})
		} else {
			out = append(out, obj{"loc": e.Loc, "code": e.GoCode, "compat": e.Compat})
		}
	}
	return out
}

func countBreaking(es []diffEntry) int {
	n := 0
	for _, e := range es {
		if e.Compat == "Breaking" {
			n++
		}
	}
	return n
}

func driveDiffCase(i int, c obj, bin, work, mode string, seed int64) []obj {
	dir := filepath.Join(work, fmt.Sprintf("case%05d", i))
	_ = os.MkdirAll(dir, 0o755)
	var pa, pb string
	desc, _ := c["c"].(obj)
	if fa, ok := c["fileA"].(string); ok { // pool-based case (fixtures)
		pa, pb = fa, c["fileB"].(string)
	} else {
		A, _ := c["A"].(obj)
		B, _ := c["B"].(obj)
		da, db := aosToSwagger(A), aosToSwagger(B)
		pa, pb = filepath.Join(dir, "A.json"), filepath.Join(dir, "B.json")
		_ = os.WriteFile(pa, mustJSON(da), 0o644)
		_ = os.WriteFile(pb, mustJSON(db), 0o644)
	}
	evs := []obj{{"ev": "Load", "id": i, "c": desc, "a": pa, "b": pb}}
	sa, errA := loadDoc(pa)
	sb, errB := loadDoc(pb)
	if errA != nil || errB != nil {
		evs = append(evs, obj{"ev": "LoadError", "id": i, "err": fmt.Sprint(errA, errB)})
		return evs
	}
	ab := compareSafe(sa, sb, 20*time.Second)
	// fresh copies for the other direction: Compare must not depend on earlier runs
	sa2, _ := loadDoc(pa)
	sb2, _ := loadDoc(pb)
	ba := compareSafe(sb2, sa2, 20*time.Second)
	an := obj{"ev": "Analyse", "id": i,
		"ab": entriesForTrace(ab.Entries, false), "ba": entriesForTrace(ba.Entries, false),
		"nab": len(ab.Entries), "nba": len(ba.Entries),
		"breaking": countBreaking(ab.Entries),
		"panicked": ab.Panicked || ba.Panicked, "panicAt": firstNonEmpty(ab.PanicAt, ba.PanicAt),
		"timedOut": ab.TimedOut || ba.TimedOut, "err": firstNonEmpty(ab.Err, ba.Err)}
	evs = append(evs, an)

	// calibration of the witness with the reference validator
	if w, ok := c["witness"].(obj); ok {
		// only value-level (leaf) edits are decidable by the reference schema validator; wire-level
		// edits (collectionFormat, location, presence, media type) are not
		if _, none := w["none"]; !none && desc["kind"] == "leaf" {
			A, _ := c["A"].(obj)
			B, _ := c["B"].(obj)
			ra, da := refAccepts(aosToSwagger(A), A, w)
			rb, db := refAccepts(aosToSwagger(B), B, w)
			evs = append(evs, obj{"ev": "Calib", "id": i, "decided": da && db, "refA": ra, "refB": rb})
		}
	}

	if bin != "" {
		r := runCLI(bin, "diff", pa, pb)
		evs = append(evs, obj{"ev": "Exit", "id": i, "fmt": "txt", "bonly": false, "exit": r.Exit,
			"crashed": strings.Contains(r.Stderr, "panic:") || strings.Contains(r.Stderr, "goroutine ")})
		if mode == "c15" {
			evs = append(evs, driveIgnore(i, bin, dir, pa, pb, seed)...)
		}
	}
	return evs
}

// driveIgnore: C15. JSON report fed back verbatim as ignore file, for subsets of the entries.
func driveIgnore(i int, bin, dir, pa, pb string, seed int64) []obj {
	evs := []obj{}
	rj := runCLI(bin, "diff", "-f", "json", pa, pb)
	var rawEntries []json.RawMessage
	if err := json.Unmarshal([]byte(rj.Stdout), &rawEntries); err != nil {
		return append(evs, obj{"ev": "ReportError", "id": i, "err": err.Error(), "out": trunc(rj.Stdout, 300)})
	}
	entries, err := entriesFromJSON([]byte(rj.Stdout))
	if err != nil {
		return append(evs, obj{"ev": "ReportError", "id": i, "err": err.Error()})
	}
	n := len(entries)
	evs = append(evs, obj{"ev": "JsonReport", "id": i, "entries": entriesForTrace(entries, true), "exit": rj.Exit})
	// subsets: all when n <= 3, else empty, full, singletons of first/last, and seeded masks
	var subsets [][]int
	if n <= 3 {
		for m := 0; m < 1<<n; m++ {
			s := []int{}
			for k := 0; k < n; k++ {
				if m&(1<<k) != 0 {
					s = append(s, k)
				}
			}
			subsets = append(subsets, s)
		}
	} else {
		full := []int{}
		for k := 0; k < n; k++ {
			full = append(full, k)
		}
		subsets = [][]int{{}, full, {0}, {n - 1}}
		if n <= 10 { // every singleton: ignoring one entry removes that entry and no other
			for k := 1; k < n-1; k++ {
				subsets = append(subsets, []int{k})
			}
		}
		x := uint64(seed)*2862933555777941757 + uint64(i)*3037000493 + 1
		for r := 0; r < 4; r++ {
			s := []int{}
			for k := 0; k < n; k++ {
				x = x*6364136223846793005 + 1442695040888963407
				if (x>>33)&1 == 1 {
					s = append(s, k)
				}
			}
			subsets = append(subsets, s)
		}
	}
	for si, sub := range subsets {
		ig := []json.RawMessage{}
		for _, k := range sub {
			ig = append(ig, rawEntries[k]) // verbatim
		}
		igPath := filepath.Join(dir, fmt.Sprintf("ignore%d.json", si))
		_ = os.WriteFile(igPath, mustJSON(ig), 0o644)
		idx := []any{}
		for _, k := range sub {
			idx = append(idx, k+1)
		}
		for _, variant := range []struct {
			fmt   string
			bonly bool
		}{{"json", false}, {"txt", false}, {"txt", true}} {
			args := []string{"diff", "-i", igPath}
			if variant.fmt == "json" {
				args = append(args, "-f", "json")
			}
			if variant.bonly {
				args = append(args, "-b")
			}
			args = append(args, pa, pb)
			r := runCLI(bin, args...)
			shown, perr := parseShown(r.Stdout, variant.fmt, entries)
			evs = append(evs, obj{"ev": "Run", "id": i, "ignore": idx, "fmt": variant.fmt, "bonly": variant.bonly,
				"shown": shown, "parseErr": perr, "exit": r.Exit})
		}
	}
	return evs
}

func trunc(s string, n int) string {
	if len(s) > n {
		return s[:n]
	}
	return s
}

// parseShown maps a rendering back to indices (1-based) into the JSON report's entries. Lines of the
// text report are matched against the String() renderings; an unmatched line is reported as 0.
func parseShown(out, format string, entries []diffEntry) ([]any, string) {
	shown := []any{}
	if format == "json" {
		es, err := entriesFromJSON([]byte(out))
		if err != nil {
			return shown, err.Error()
		}
		used := map[int]bool{}
		for _, e := range es {
			found := 0
			for k, x := range entries {
				if !used[k] && x.ID == e.ID {
					found = k + 1
					used[k] = true
					break
				}
			}
			shown = append(shown, found)
		}
		return shown, ""
	}
	used := map[int]bool{}
	for _, line := range strings.Split(out, "\n") {
		l := strings.TrimRight(line, "\r")
		if l == "" || strings.HasPrefix(l, "===") || strings.HasSuffix(l, "CHANGES:") || strings.HasSuffix(l, "WITH WARNING:") ||
			strings.HasPrefix(l, "compatibility test") || l == "No changes identified" {
			continue
		}
		found := 0
		for k, x := range entries {
			if !used[k] && x.Text == l {
				found = k + 1
				used[k] = true
				break
			}
		}
		shown = append(shown, found)
	}
	sort.Slice(shown, func(a, b int) bool { return shown[a].(int) < shown[b].(int) })
	return shown, ""
}

func readNDJSON(path string) ([]obj, error) {
	f, err := os.Open(path)
	if err != nil {
		return nil, err
	}
	defer f.Close()
	var out []obj
	sc := bufio.NewScanner(f)
	sc.Buffer(make([]byte, 1<<20), 1<<28)
	for sc.Scan() {
		if len(bytes.TrimSpace(sc.Bytes())) == 0 {
			continue
		}
		var m obj
		dec := json.NewDecoder(bytes.NewReader(sc.Bytes()))
		if err := dec.Decode(&m); err != nil {
			return nil, err
		}
		out = append(out, m)
	}
	return out, sc.Err()
}
