package main

import "github.com/go-swagger/go-swagger/cmd/swagger/commands/diff"

// names of the Go constants (the mirror relation of C14 is defined on constants, not on the
// strings of the marshalling tables)
var codeNames = map[diff.SpecChangeCode]string{
	diff.NoChangeDetected:          "NoChangeDetected",
	diff.DeletedProperty:           "DeletedProperty",
	diff.AddedProperty:             "AddedProperty",
	diff.AddedRequiredProperty:     "AddedRequiredProperty",
	diff.DeletedOptionalParam:      "DeletedOptionalParam",
	diff.ChangedDescripton:         "ChangedDescripton",
	diff.AddedDescripton:           "AddedDescripton",
	diff.DeletedDescripton:         "DeletedDescripton",
	diff.ChangedTag:                "ChangedTag",
	diff.AddedTag:                  "AddedTag",
	diff.DeletedTag:                "DeletedTag",
	diff.DeletedResponse:           "DeletedResponse",
	diff.DeletedEndpoint:           "DeletedEndpoint",
	diff.DeletedDeprecatedEndpoint: "DeletedDeprecatedEndpoint",
	diff.AddedRequiredParam:        "AddedRequiredParam",
	diff.DeletedRequiredParam:      "DeletedRequiredParam",
	diff.AddedEndpoint:             "AddedEndpoint",
	diff.WidenedType:               "WidenedType",
	diff.NarrowedType:              "NarrowedType",
	diff.ChangedToCompatibleType:   "ChangedToCompatibleType",
	diff.ChangedType:               "ChangedType",
	diff.AddedEnumValue:            "AddedEnumValue",
	diff.DeletedEnumValue:          "DeletedEnumValue",
	diff.AddedOptionalParam:        "AddedOptionalParam",
	diff.ChangedOptionalToRequired: "ChangedOptionalToRequired",
	diff.ChangedRequiredToOptional: "ChangedRequiredToOptional",
	diff.AddedResponse:             "AddedResponse",
	diff.AddedConsumesFormat:       "AddedConsumesFormat",
	diff.DeletedConsumesFormat:     "DeletedConsumesFormat",
	diff.AddedProducesFormat:       "AddedProducesFormat",
	diff.DeletedProducesFormat:     "DeletedProducesFormat",
	diff.AddedSchemes:              "AddedSchemes",
	diff.DeletedSchemes:            "DeletedSchemes",
	diff.ChangedHostURL:            "ChangedHostURL",
	diff.ChangedBasePath:           "ChangedBasePath",
	diff.AddedResponseHeader:       "AddedResponseHeader",
	diff.ChangedResponseHeader:     "ChangedResponseHeader",
	diff.DeletedResponseHeader:     "DeletedResponseHeader",
	diff.RefTargetChanged:          "RefTargetChanged",
	diff.RefTargetRenamed:          "RefTargetRenamed",
	diff.DeletedConstraint:         "DeletedConstraint",
	diff.AddedConstraint:           "AddedConstraint",
	diff.DeletedDefinition:         "DeletedDefinition",
	diff.AddedDefinition:           "AddedDefinition",
	diff.ChangedDefault:            "ChangedDefault",
	diff.AddedDefault:              "AddedDefault",
	diff.DeletedDefault:            "DeletedDefault",
	diff.ChangedExample:            "ChangedExample",
	diff.AddedExample:              "AddedExample",
	diff.DeletedExample:            "DeletedExample",
	diff.ChangedCollectionFormat:   "ChangedCollectionFormat",
	diff.DeletedExtension:          "DeletedExtension",
	diff.AddedExtension:            "AddedExtension",
	diff.ChangedExtensionValue:     "ChangedExtensionValue",
}

func goCodeName(c diff.SpecChangeCode) string {
	if n, ok := codeNames[c]; ok {
		return n
	}
	return "Unknown"
}
