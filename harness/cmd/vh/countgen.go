package main

// count-gen: what a generation produced, counted from the source (go/parser), not from go-swagger's
// own bookkeeping: client methods (methods of *Client other than SetTransport) and model types
// (type declarations annotated swagger:model).

import (
	"flag"
	"fmt"
	"go/ast"
	"go/parser"
	"go/token"
	"os"
	"path/filepath"
	"strings"
)

func init() { cmds["count-gen"] = cmdCountGen }

func cmdCountGen(args []string) error {
	fs := flag.NewFlagSet("count-gen", flag.ExitOnError)
	dir := fs.String("dir", "", "generation target")
	_ = fs.Parse(args)
	methods, models := 0, 0
	modelNames := []string{}
	_ = filepath.Walk(*dir, func(p string, info os.FileInfo, err error) error {
		if err != nil || info.IsDir() || !strings.HasSuffix(p, ".go") {
			return nil
		}
		rel, _ := filepath.Rel(*dir, p)
		fset := token.NewFileSet()
		f, err := parser.ParseFile(fset, p, nil, parser.ParseComments)
		if err != nil {
			return nil
		}
		if strings.HasPrefix(rel, "client"+string(filepath.Separator)) {
			for _, d := range f.Decls {
				fd, ok := d.(*ast.FuncDecl)
				if !ok || fd.Recv == nil || len(fd.Recv.List) != 1 || !fd.Name.IsExported() || fd.Name.Name == "SetTransport" {
					continue
				}
				if st, ok := fd.Recv.List[0].Type.(*ast.StarExpr); ok {
					if id, ok := st.X.(*ast.Ident); ok && id.Name == "Client" {
						methods++
					}
				}
			}
		}
		if strings.HasPrefix(rel, "models"+string(filepath.Separator)) {
			for _, d := range f.Decls {
				gd, ok := d.(*ast.GenDecl)
				if !ok || gd.Tok != token.TYPE {
					continue
				}
				for _, s := range gd.Specs {
					ts := s.(*ast.TypeSpec)
					doc := gd.Doc
					if ts.Doc != nil {
						doc = ts.Doc
					}
					if doc != nil {
						if m := rxModel.FindStringSubmatch(doc.Text()); m != nil {
							models++
							modelNames = append(modelNames, m[1])
						}
					}
				}
			}
		}
		return nil
	})
	fmt.Println(string(mustJSON(obj{"nClientMethods": methods, "nModelTypes": models, "models": modelNames})))
	return nil
}
