package main

// Generated-model family (C02 C05 C18): materialise the definitions TLC enumerated into one Swagger
// document, and build the registry definition-name -> Go type from the `swagger:model` comments of
// the generated package (go-swagger's own naming logic is not trusted to find the type).

import (
	"flag"
	"fmt"
	"go/ast"
	"go/parser"
	"go/token"
	"os"
	"path/filepath"
	"regexp"
	"sort"
	"strings"
)

func init() {
	cmds["model-materialise"] = cmdModelMaterialise
	cmds["model-registry"] = cmdModelRegistry
}

func cmdModelMaterialise(args []string) error {
	fs := flag.NewFlagSet("model-materialise", flag.ExitOnError)
	defsPath := fs.String("defs", "", "ndjson: {name, schema}")
	out := fs.String("out", "spec.json", "")
	_ = fs.Parse(args)
	rows, err := readNDJSON(*defsPath)
	if err != nil {
		return err
	}
	defs := obj{}
	for _, r := range rows {
		defs[r["name"].(string)] = absSchema(r["schema"])
	}
	doc := obj{"swagger": "2.0", "info": obj{"title": "verif models", "version": "1"},
		"paths": obj{}, "definitions": defs}
	return os.WriteFile(*out, mustJSON(doc), 0o644)
}

var rxModel = regexp.MustCompile(`swagger:model\s+(\S+)`)

func cmdModelRegistry(args []string) error {
	fs := flag.NewFlagSet("model-registry", flag.ExitOnError)
	pkgDir := fs.String("pkg", "", "generated models directory")
	imp := fs.String("import", "", "import path of the generated models package")
	out := fs.String("out", "registry.go", "")
	_ = fs.Parse(args)
	fset := token.NewFileSet()
	pkgs, err := parser.ParseDir(fset, *pkgDir, nil, parser.ParseComments)
	if err != nil {
		return err
	}
	reg := map[string]string{}
	for _, p := range pkgs {
		for _, f := range p.Files {
			for _, d := range f.Decls {
				gd, ok := d.(*ast.GenDecl)
				if !ok || gd.Tok != token.TYPE {
					continue
				}
				for _, s := range gd.Specs {
					ts := s.(*ast.TypeSpec)
					doc := gd.Doc
					if ts.Doc != nil {
						doc = ts.Doc
					}
					if doc == nil {
						continue
					}
					if m := rxModel.FindStringSubmatch(doc.Text()); m != nil {
						reg[m[1]] = ts.Name.Name
					}
				}
			}
		}
	}
	names := make([]string, 0, len(reg))
	for n := range reg {
		names = append(names, n)
	}
	sort.Strings(names)
	var b strings.Builder
	fmt.Fprintf(&b, "package main\n\nimport models %q\n\nvar registry = map[string]func() any{\n", *imp)
	for _, n := range names {
		fmt.Fprintf(&b, "\t%q: func() any { return new(models.%s) },\n", n, reg[n])
	}
	b.WriteString("}\n")
	_ = os.MkdirAll(filepath.Dir(*out), 0o755)
	return os.WriteFile(*out, []byte(b.String()), 0o644)
}

// model-calib: the reference validator's verdict (go-openapi/validate, named by C02 as the reference
// semantics) on (definition, document) pairs - calibration of JsonSchema!Valid, two-oracle rule.
func init() { cmds["model-calib"] = cmdModelCalib }

func cmdModelCalib(args []string) error {
	fs := flag.NewFlagSet("model-calib", flag.ExitOnError)
	specPath := fs.String("spec", "", "")
	instPath := fs.String("instances", "", "")
	_ = fs.Parse(args)
	doc, err := loadsSpec(*specPath)
	if err != nil {
		return err
	}
	rows, err := readNDJSON(*instPath)
	if err != nil {
		return err
	}
	for _, r := range rows {
		name := r["def"].(string)
		sch, ok := doc.Spec().Definitions[name]
		if !ok {
			continue
		}
		valid := refValidate(&sch, doc.Spec(), roundTrip(taggedToJSON(r["doc"])))
		fmt.Println(string(mustJSON(obj{"def": name, "i": r["i"], "valid": valid})))
	}
	return nil
}
