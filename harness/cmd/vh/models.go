package main

// Generated-model family (C02 C05 C18): materialise the definitions TLC enumerated into one Swagger
// document, and build the registry definition-name -> Go type from the `swagger:model` comments of
// the generated package (go-swagger's own naming logic is not trusted to find the type).

import (
	"flag"
	"fmt"
	"go/ast"
	"go/parser"
	"go/token"
	"os"
	"path/filepath"
	"regexp"
	"sort"
	"strings"
)

func init() {
	cmds["model-materialise"] = cmdModelMaterialise
	cmds["model-registry"] = cmdModelRegistry
}

func cmdModelMaterialise(args []string) error {
	fs := flag.NewFlagSet("model-materialise", flag.ExitOnError)
	defsPath := fs.String("defs", "", "ndjson: {name, schema}")
	out := fs.String("out", "spec.json", "")
	_ = fs.Parse(args)
	rows, err := readNDJSON(*defsPath)
	if err != nil {
		return err
	}
	defs := obj{}
	for _, r := range rows {
		defs[r["name"].(string)] = absSchema(r["schema"])
	}
	doc := obj{"swagger": "2.0", "info": obj{"title": "verif models", "version": "1"},
		"paths": obj{}, "definitions": defs}
	return os.WriteFile(*out, mustJSON(doc), 0o644)
}

var rxModel = regexp.MustCompile(`swagger:(?:model|discriminator)\s+(\S+)`)

type multiFlag []string

func (m *multiFlag) String() string     { return strings.Join(*m, ",") }
func (m *multiFlag) Set(v string) error { *m = append(*m, v); return nil }

// model-registry -pkg <dir>=<import path> ... : one registry over several generated packages
func cmdModelRegistry(args []string) error {
	fs := flag.NewFlagSet("model-registry", flag.ExitOnError)
	var pkgs multiFlag
	fs.Var(&pkgs, "pkg", "dir=importpath (repeatable)")
	out := fs.String("out", "registry.go", "")
	_ = fs.Parse(args)
	var imports, entries []string
	needPoly := false
	for i, spec := range pkgs {
		parts := strings.SplitN(spec, "=", 2)
		alias := fmt.Sprintf("m%d", i)
		imports = append(imports, fmt.Sprintf("\t%s %q", alias, parts[1]))
		fset := token.NewFileSet()
		parsed, err := parser.ParseDir(fset, parts[0], nil, parser.ParseComments)
		if err != nil {
			return err
		}
		reg := map[string]string{}
		isIface := map[string]bool{}
		for _, p := range parsed {
			for _, f := range p.Files {
				for _, d := range f.Decls {
					gd, ok := d.(*ast.GenDecl)
					if !ok || gd.Tok != token.TYPE {
						continue
					}
					for _, s := range gd.Specs {
						ts := s.(*ast.TypeSpec)
						doc := gd.Doc
						if ts.Doc != nil {
							doc = ts.Doc
						}
						if doc == nil {
							continue
						}
						if m := rxModel.FindStringSubmatch(doc.Text()); m != nil {
							reg[m[1]] = ts.Name.Name
							if _, ok := ts.Type.(*ast.InterfaceType); ok {
								isIface[m[1]] = true
							}
						}
					}
				}
			}
		}
		names := make([]string, 0, len(reg))
		for n := range reg {
			names = append(names, n)
		}
		sort.Strings(names)
		for _, n := range names {
			if isIface[n] {
				// a discriminated base type is an interface: decode through the generated Unmarshal<Type> factory
				entries = append(entries, fmt.Sprintf("\t%q: func() any {\n\t\treturn &polyBox{dec: func(r io.Reader, c runtime.Consumer) (any, error) { return %s.Unmarshal%s(r, c) }}\n\t},", n, alias, reg[n]))
				needPoly = true
				continue
			}
			entries = append(entries, fmt.Sprintf("\t%q: func() any { return new(%s.%s) },", n, alias, reg[n]))
		}
	}
	var b strings.Builder
	if needPoly {
		imports = append([]string{"\t\"io\"", "\t\"github.com/go-openapi/runtime\""}, imports...)
	}
	b.WriteString("package main\n\nimport (\n" + strings.Join(imports, "\n") + "\n)\n\nvar registry = map[string]func() any{\n")
	b.WriteString(strings.Join(entries, "\n"))
	b.WriteString("\n}\n")
	_ = os.MkdirAll(filepath.Dir(*out), 0o755)
	return os.WriteFile(*out, []byte(b.String()), 0o644)
}

// model-calib: the reference validator's verdict (go-openapi/validate, named by C02 as the reference
// semantics) on (definition, document) pairs - calibration of JsonSchema!Valid, two-oracle rule.
func init() { cmds["model-calib"] = cmdModelCalib }

func cmdModelCalib(args []string) error {
	fs := flag.NewFlagSet("model-calib", flag.ExitOnError)
	var specs multiFlag
	fs.Var(&specs, "spec", "materialised document (repeatable)")
	instPath := fs.String("instances", "", "")
	_ = fs.Parse(args)
	rows, err := readNDJSON(*instPath)
	if err != nil {
		return err
	}
	for _, sp := range specs {
		doc, err := loadsSpec(sp)
		if err != nil {
			return err
		}
		for _, r := range rows {
			name := r["def"].(string)
			sch, ok := doc.Spec().Definitions[name]
			if !ok {
				continue
			}
			valid := refValidate(&sch, doc.Spec(), roundTrip(taggedToJSON(r["doc"])))
			fmt.Println(string(mustJSON(obj{"def": name, "i": r["i"], "valid": valid})))
		}
	}
	return nil
}
