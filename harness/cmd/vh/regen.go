package main

// C11 driver: replay TLC-generated histories of generate runs / user actions / spec changes against
// the REAL `swagger generate ...` binary in one target directory, recording after every step the
// content identity of every file and the file set + contents of a FRESH generation with the same
// inputs into an empty directory.

import (
	"bufio"
	"crypto/sha256"
	"encoding/hex"
	"flag"
	"fmt"
	"os"
	"os/exec"
	"path/filepath"
	"regexp"
	"runtime"
	"sort"
	"strings"
	"sync"
)

func init() { cmds["regen-drive"] = cmdRegenDrive }

const scratchMod = "module scratch/regen\n\ngo 1.21\n"

func regenSpec(ops, defs map[string]bool) obj {
	paths := obj{
		"/base": obj{"get": obj{"operationId": "base", "responses": obj{"200": obj{"description": "ok", "schema": obj{"$ref": "#/definitions/base"}}}}},
	}
	if ops["o1"] {
		paths["/o1"] = obj{"get": obj{"operationId": "o1", "tags": []any{"first"}, "responses": obj{"200": obj{"description": "ok", "schema": obj{"$ref": "#/definitions/base"}}}}}
	}
	if ops["o2"] {
		paths["/o2/{id}"] = obj{"post": obj{"operationId": "o2", "parameters": []any{
			obj{"name": "id", "in": "path", "type": "integer", "required": true},
			obj{"name": "q", "in": "query", "type": "string"}},
			"responses": obj{"204": obj{"description": "ok"}}}}
	}
	d := obj{"base": obj{"type": "object", "properties": obj{"a": obj{"type": "string"}}}}
	if defs["d1"] {
		d["d1"] = obj{"type": "object", "required": []any{"x"}, "properties": obj{"x": obj{"type": "integer", "minimum": 1}}}
	}
	if defs["d2"] {
		d["d2"] = obj{"type": "string", "enum": []any{"a", "b"}}
	}
	return obj{"swagger": "2.0", "info": obj{"title": "verif", "version": "1"},
		"produces": []any{"application/json"}, "consumes": []any{"application/json"},
		"paths": paths, "definitions": d}
}

// regenLayout is the layout file of docs/reference/templates/template_layout.md ("Server generation"),
// extracted from the documentation by the caller (-layout)
var regenLayout string

func genArgs(cmd, opt string) []string {
	a := []string{"generate", cmd}
	switch cmd {
	case "server", "client", "support":
		if opt == "custom_layout" {
			// the documented invocation: swagger generate server -A TodoList -f ./swagger.json -C default-server.yml
			a = append(a, "-A", "TodoList", "-C", regenLayout)
		} else {
			a = append(a, "--name", "verif")
		}
	}
	switch opt {
	case "regen_configure":
		a = append(a, "--regenerate-configureapi")
	case "skip_models":
		a = append(a, "--skip-models")
	case "skip_operations":
		a = append(a, "--skip-operations")
	case "skip_support":
		a = append(a, "--skip-support")
	case "exclude_main":
		a = append(a, "--exclude-main")
	case "stratoscale":
		a = append(a, "--template", "stratoscale")
	case "exclude_main_pkg":
		a = append(a, "--exclude-main", "--main-package", "my-server")
	case "impl_package":
		a = append(a, "--implementation-package", "scratch/regen/impl")
	}
	return a
}

func hashTree(root string) map[string]string {
	out := map[string]string{}
	_ = filepath.Walk(root, func(p string, info os.FileInfo, err error) error {
		if err != nil || info.IsDir() {
			return nil
		}
		r, _ := filepath.Rel(root, p)
		if r == "go.mod" || r == "go.sum" {
			return nil
		}
		b, _ := os.ReadFile(p)
		h := sha256.Sum256(b)
		out[r] = hex.EncodeToString(h[:8])
		return nil
	})
	return out
}

var rxConfigure = regexp.MustCompile(`(^|/)configure_[a-z0-9_]+\.go$`)

type regenBehaviour struct {
	id     int
	bin    string
	dir    string
	ops    map[string]bool
	defs   map[string]bool
	ids    map[string]int // content hash -> small id
	events []obj
	fresh  map[string]map[string]string
}

func (b *regenBehaviour) hid(h string) int {
	if v, ok := b.ids[h]; ok {
		return v
	}
	b.ids[h] = len(b.ids) + 1
	return b.ids[h]
}

func (b *regenBehaviour) idmap(m map[string]string) obj {
	out := obj{}
	for k, v := range m {
		out[k] = b.hid(v)
	}
	return out
}

func (b *regenBehaviour) specKey() string {
	ks := []string{}
	for k, v := range b.ops {
		if v {
			ks = append(ks, k)
		}
	}
	for k, v := range b.defs {
		if v {
			ks = append(ks, k)
		}
	}
	sort.Strings(ks)
	return strings.Join(ks, ",")
}

// the generated configure file records the relative paths of target and spec (go:generate line), so
// the live and the fresh generation use the same layout: <root>/spec.json and <root>/live
func (b *regenBehaviour) writeSpec(root string) string {
	p := filepath.Join(root, "spec.json")
	_ = os.WriteFile(p, mustJSON(regenSpec(b.ops, b.defs)), 0o644)
	return p
}

func (b *regenBehaviour) runGen(target, cmd, opt string) (int, string) {
	b.writeSpec(filepath.Dir(target))
	args := append(genArgs(cmd, opt), "-f", "../spec.json", "-t", ".")
	c := exec.Command(b.bin, args...)
	c.Dir = target
	outb, err := c.CombinedOutput()
	if err != nil {
		if ee, ok := err.(*exec.ExitError); ok {
			return ee.ExitCode(), tail(string(outb), 400)
		}
		return -1, err.Error()
	}
	return 0, ""
}

func tail(s string, n int) string {
	if len(s) > n {
		return s[len(s)-n:]
	}
	return s
}

func (b *regenBehaviour) freshFor(cmd, opt string) (map[string]string, int) {
	key := cmd + "|" + opt + "|" + b.specKey()
	if f, ok := b.fresh[key]; ok {
		return f, 0
	}
	froot := filepath.Join(b.dir, fmt.Sprintf("f%d", len(b.fresh)))
	d := filepath.Join(froot, "live")
	_ = os.MkdirAll(d, 0o755)
	_ = os.WriteFile(filepath.Join(d, "go.mod"), []byte(scratchMod), 0o644)
	rc, _ := b.runGen(d, cmd, opt)
	f := hashTree(d)
	_ = os.RemoveAll(froot)
	b.fresh[key] = f
	return f, rc
}

func (b *regenBehaviour) snapshot(live string) (obj, []any) {
	t := hashTree(live)
	conf := []any{}
	ks := []string{}
	for k := range t {
		ks = append(ks, k)
	}
	sort.Strings(ks)
	for _, k := range ks {
		if rxConfigure.MatchString(k) {
			conf = append(conf, k)
		}
	}
	return b.idmap(t), conf
}

var userFiles = map[string]string{
	"u1": "NOTES.md",
	"u2": "restapi/my_handlers.go",
	"u3": "models/extra_model.go",
	"u4": "cmd/my-server/main.go", // a hand-written main, where --main-package my-server would put the generated one
}

func (b *regenBehaviour) run(hist []any) {
	live := filepath.Join(b.dir, "main", "live")
	_ = os.MkdirAll(live, 0o755)
	_ = os.WriteFile(filepath.Join(live, "go.mod"), []byte(scratchMod), 0o644)
	b.events = append(b.events, obj{"ev": "Reset", "b": b.id})
	for step, h := range hist {
		a := h.(obj)
		switch a["a"] {
		case "gen":
			cmd, opt := a["cmd"].(string), a["opt"].(string)
			fresh, frc := b.freshFor(cmd, opt)
			rc, errOut := b.runGen(live, cmd, opt)
			after, conf := b.snapshot(live)
			b.events = append(b.events, obj{"ev": "Gen", "b": b.id, "step": step, "cmd": cmd, "opt": opt,
				"regen": opt == "regen_configure" || opt == "stratoscale", "spec": b.specKey(),
				"exit": rc, "freshExit": frc, "err": errOut, "fresh": b.idmap(fresh), "after": after, "conf": conf})
		case "user_add":
			rel := userFiles[a["u"].(string)]
			p := filepath.Join(live, rel)
			_ = os.MkdirAll(filepath.Dir(p), 0o755)
			content := fmt.Sprintf("// user file %s added at step %d of behaviour %d\n", rel, step, b.id)
			if strings.HasSuffix(rel, ".go") {
				pkg := filepath.Base(filepath.Dir(rel))
				if strings.HasPrefix(rel, "cmd/") {
					pkg = "main"
				}
				content = "package " + pkg + "\n\n" + content
			}
			_ = os.WriteFile(p, []byte(content), 0o644)
			after, _ := b.snapshot(live)
			b.events = append(b.events, obj{"ev": "UserAdd", "b": b.id, "step": step, "path": rel, "after": after})
		case "user_edit":
			k := a["k"].(string)
			t := hashTree(live)
			target := ""
			ks := []string{}
			for p := range t {
				ks = append(ks, p)
			}
			sort.Strings(ks)
			for _, p := range ks {
				if (k == "configure" && rxConfigure.MatchString(p)) || (k == "main" && strings.HasSuffix(p, "/main.go")) {
					target = p
				}
			}
			if target != "" {
				f, _ := os.OpenFile(filepath.Join(live, target), os.O_APPEND|os.O_WRONLY, 0o644)
				fmt.Fprintf(f, "\n// user edit at step %d of behaviour %d\n", step, b.id)
				f.Close()
			}
			after, _ := b.snapshot(live)
			b.events = append(b.events, obj{"ev": "UserEdit", "b": b.id, "step": step, "k": k, "path": target, "after": after})
		case "toggle_op":
			n := a["n"].(string)
			b.ops[n] = !b.ops[n]
			b.events = append(b.events, obj{"ev": "SpecChange", "b": b.id, "step": step, "spec": b.specKey()})
		case "toggle_def":
			n := a["n"].(string)
			b.defs[n] = !b.defs[n]
			b.events = append(b.events, obj{"ev": "SpecChange", "b": b.id, "step": step, "spec": b.specKey()})
		}
	}
	_ = os.RemoveAll(b.dir)
}

func cmdRegenDrive(args []string) error {
	fs := flag.NewFlagSet("regen-drive", flag.ExitOnError)
	casesPath := fs.String("cases", "", "")
	outPath := fs.String("out", "trace.ndjson", "")
	bin := fs.String("swagger", "", "")
	work := fs.String("work", "", "")
	jobs := fs.Int("j", runtime.NumCPU(), "")
	layout := fs.String("layout", "", "")
	_ = fs.Parse(args)
	regenLayout = *layout
	cases, err := readNDJSON(*casesPath)
	if err != nil {
		return err
	}
	res := make([][]obj, len(cases))
	var wg sync.WaitGroup
	sem := make(chan struct{}, *jobs)
	for i := range cases {
		wg.Add(1)
		sem <- struct{}{}
		go func(i int) {
			defer wg.Done()
			defer func() { <-sem }()
			b := &regenBehaviour{id: i, bin: *bin, dir: filepath.Join(*work, fmt.Sprintf("b%04d", i)),
				ops: map[string]bool{"o1": true, "o2": true}, defs: map[string]bool{"d1": true, "d2": true},
				ids: map[string]int{}, fresh: map[string]map[string]string{}}
			_ = os.MkdirAll(b.dir, 0o755)
			hist, _ := cases[i]["hist"].([]any)
			b.run(hist)
			res[i] = b.events
		}(i)
	}
	wg.Wait()
	f, err := os.Create(*outPath)
	if err != nil {
		return err
	}
	defer f.Close()
	w := bufio.NewWriter(f)
	defer w.Flush()
	for _, r := range res {
		for _, e := range r {
			w.Write(mustJSON(e))
			w.WriteByte('\n')
		}
	}
	return nil
}
