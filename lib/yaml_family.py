"""C19: JSON and YAML renderings of a spec are interchangeable.  TLC enumerates scalar content class x
position x command (YamlScalars); the real CLI is run for {json,yaml} input x {json,yaml} output
(+ compact); the written files are reloaded with the toolkit's loader; TLC checks the equalities."""
import os, json, shutil, concurrent.futures, random
from common import *

ASSUME = [
    "loads.Spec (pinned go-openapi/loads + yaml.v3) is the reader of the outputs: 'loading the YAML output' means loading it with the toolkit",
    "the YAML rendering of the input is produced by yaml.v3 with double-quoted scalars; a case whose two input renderings do not load to the same value is skipped and counted",
    "numbers are compared exactly (big.Rat of the literal)",
]

STR = {
    "int_like": "123", "float_like": "1.5", "exp_like": "1e3", "hex_like": "0x1F", "octal_like": "0o17", "bool_true": "true",
    "bool_True": "True", "bool_yes": "yes", "bool_no": "no", "bool_on": "on", "bool_off": "off", "null_word": "null", "null_tilde": "~",
    "empty": "", "date_like": "2020-01-02", "timestamp_like": "2001-12-14t21:59:43.10-05:00", "sexagesimal": "12:30:45",
    "inf_like": ".inf", "nan_like": ".NaN", "multiline": "line1\nline2\n", "lead_space": " lead", "trail_space": "trail ",
    "colon_space": "key: value", "space_hash": "text # not a comment", "dash_space": "- item", "flow_seq": "[a, b]", "flow_map": "{a: b}",
    "anchor": "&anchor", "alias": "*alias", "tag_bang": "!tag", "percent": "%TAG", "at_sign": "@at", "backquote": "`bq`",
    "single_quote": "it's", "double_quote": 'say "x"', "backslash": "back\\slash\\n", "nonascii": "héllo ✓ 日本",
    "control": "bell\u0007", "tab": "a\tb", "html_chars": "<b>&amp;</b> a<b && c>d", "escape_like": "^[^\\u003c\\u003e\\u0026]*$ and \\n \\\\u0041", "long_line": "word " * 40,
    "nonbmp": "dog \U0001F436 and \U0001D11E", "line_sep": "first\u2028second \u2029 third", "solidus": "a/b </script> http://x/y", "question": "? key", "pipe": "| literal", "gt": "> folded",
}
NUM = {"big_int_2p53p1": "9007199254740993", "uint64_max": "18446744073709551615", "float_1e21": "1e21", "float_0_1": "0.1",
       "neg_zero": "-0.0", "float_integral": "1.0", "small_exp": "1e-7"}


# classes for which the input is ALSO given as JSON written by an encoder that escapes more than it must (every
# non-ASCII character as \\uXXXX - surrogate pairs above the BMP -, the solidus as \\/): the same document
ESCAPED_INPUT = ("nonbmp", "line_sep", "solidus", "nonascii", "control", "html_chars")


def doc_for(c):
    d = {"swagger": "2.0", "info": {"title": "verif yaml", "version": "1", "description": "d"},
         "paths": {"/t": {"get": {"operationId": "getT", "responses": {"200": {"description": "ok", "schema": {"$ref": "#/definitions/thing"}},
                                                                        "default": {"description": "err"}}}}},
         "definitions": {"thing": {"type": "object", "properties": {"kind": {"type": "string"}, "n": {"type": "number"}}}}}
    props = d["definitions"]["thing"]["properties"]
    v = "@@NUM@@" if c["num"] else STR[c["cls"]]
    p = c["pos"]
    if p == "description":
        d["info"]["description"] = v
    elif p == "enum":
        props["kind"]["enum"] = [v, "other"]
    elif p == "default":
        props["kind"]["default"] = v
    elif p == "example":
        (props["n"] if c["num"] else props["kind"])["example"] = v
    elif p == "default_num":
        props["n"]["default"] = v
    elif p == "extension":
        d["x-verif"] = v; d["info"]["x-info"] = {"nested": [v]}
    elif p == "propname":
        if v == "":
            return None
        props[v] = {"type": "string"}
    elif p == "extkey":
        d["x-" + v] = "value"
    # keys in sorted order, as in the YAML rendering made by `vh to-yaml`: for the options that record the
    # order of properties, the two renderings must list them in one order
    txt = json.dumps(d, ensure_ascii=False, sort_keys=True)
    if c["num"]:
        txt = txt.replace('"@@NUM@@"', NUM[c["cls"]])
    return txt


MIX = {"swagger": "2.0", "info": {"title": "mix", "version": "1"}, "paths": {"/m": {"get": {"operationId": "getM", "responses": {"200": {"description": "ok"}}}}}}


def check(run, replay=None):
    vh = run.build_vh(); swagger = run.build_swagger()
    mc = run.tlc("YamlScalars", "MCYaml", workers=1, timeout=600)
    if not mc["ok"]:
        raise Infra("YamlScalars design check failed: " + mc["out"][-1500:])
    gen = run.tlc("GenYaml", "GenYaml", workers=1, timeout=600)
    cases = sorted((e for t, e in gen["emitted"] if t == "CASE"), key=lambda c: json.dumps(c, sort_keys=True))
    rnd = random.Random(run.seed)
    if run.tier == "quick":
        # every class at every position under flatten; the other commands on a seeded third
        cases = [c for c in cases if c["cmd"] == "flatten" or c["cmd"] == "init" or rnd.random() < (0.12 if c["cmd"] == "genspec" else 0.15)]
    else:
        cases = [c for c in cases if c["cmd"] != "genspec" or rnd.random() < 0.4]
    # every command variant at least with a plain and an ambiguous string and a number
    allc = sorted((e for t, e in gen["emitted"] if t == "CASE"), key=lambda c: json.dumps(c, sort_keys=True))
    must = [c for c in allc if c["cls"] in ("int_like", "multiline", "float_1e21", "escape_like", "html_chars") and c["pos"] in ("default", "extension", "propname")]
    must += [c for c in allc if c["cls"] in ESCAPED_INPUT and c["pos"] in ("default", "extension")]
    # numbers at the edge of float64 / int64 through every command (the YAML writer of each command is its own code)
    must += [c for c in allc if c["num"] and c["cls"] in ("big_int_2p53p1", "uint64_max", "float_1e21")]
    cases += [c for c in must if c not in cases]
    pkg = run.scratch_module("emptypkg", modname="scratch/emptypkg")
    # the scanned package contributes numbers of its own, held in typed (int64) fields of the document:
    # bounds above 2^53 must come out the same in the JSON and in the YAML rendering
    open(os.path.join(pkg, "main.go"), "w").write(
        "// Package main carries one annotated model.\npackage main\n\nfunc main() {}\n\n"
        "// Big has bounds that do not fit a float64 exactly.\n//\n// swagger:model big\ntype Big struct {\n"
        "\t// max length: 9007199254740993\n\t// min length: 1\n\tCode string `json:\"code\"`\n"
        "\t// max items: 9223372036854775807\n\tTags []string `json:\"tags\"`\n}\n")
    mixp = run.path("mix.json"); json.dump(MIX, open(mixp, "w"))

    def digest(files):
        out = run.sh([vh, "doc-digest"] + files).stdout
        return [json.loads(l) for l in out.splitlines() if l.strip()]

    def one(i):
        c = cases[i]
        wd = run.path("y%d" % i, "x"); wd = os.path.dirname(wd)
        runs = []
        if c["cmd"] == "init":
            for of in ("json", "yaml"):
                od = os.path.join(wd, of); os.makedirs(od, exist_ok=True)
                g = run.sh([swagger, "init", "spec", "--format", of, "--title", "t", "--description", STR[c["cls"]],
                            "--terms", STR[c["cls"]], "--contact.name", STR[c["cls"]], "--license.name", STR[c["cls"]]], cwd=od, check=False, timeout=120)
                f = os.path.join(od, "swagger.json" if of == "json" else "swagger.yml")
                dg = digest([f])[0] if g.returncode == 0 else dict(digest="-")
                runs.append(dict(inFmt="none", outFmt=of, compact=False, exit=g.returncode, digest=dg["digest"],
                                 crashed="panic:" in g.stderr or "goroutine " in g.stderr))
            shutil.rmtree(wd, ignore_errors=True)
            return dict(ev="Runs", id=i, case=c, runs=runs, skipped=False)
        txt = doc_for(c)
        if txt is None:
            return None
        ij = os.path.join(wd, "in.json"); open(ij, "w").write(txt)
        iy = os.path.join(wd, "in.yaml")
        run.sh([vh, "to-yaml", ij, iy])
        din = digest([ij, iy])
        if din[0]["digest"] != din[1]["digest"] or din[0]["digest"] == "unreadable":
            shutil.rmtree(wd, ignore_errors=True)
            return dict(ev="Runs", id=i, case=c, runs=[], skipped=True, why="the two renderings of the input do not load to the same value")
        inputs = [("json", ij), ("yaml", iy)]
        if c["cls"] in ESCAPED_INPUT:
            ie = os.path.join(wd, "in-escaped.json")
            open(ie, "w").write(json.dumps(json.loads(txt), ensure_ascii=True, sort_keys=True).replace("/", "\\/"))
            if digest([ie])[0]["digest"] == din[0]["digest"]:
                inputs.append(("json_escaped", ie))
        for inf, ip in inputs:
            for of, compact in (("json", False), ("yaml", False), ("json", True)):
                if compact and inf != "json":
                    continue
                ext = "json" if of == "json" else "yml"
                op = os.path.join(wd, "out-%s-%s%s.%s" % (inf, of, "-c" if compact else "", ext))
                if c["cmd"] in ("flatten", "expand"):
                    cmd = [swagger, c["cmd"], ip, "-o", op, "--format", of]
                elif c["cmd"] == "flatten_full":
                    cmd = [swagger, "flatten", ip, "-o", op, "--format", of, "--with-flatten=full"]
                elif c["cmd"] == "flatten_unused":
                    cmd = [swagger, "flatten", ip, "-o", op, "--format", of, "--with-flatten=remove-unused"]
                elif c["cmd"] == "mixin":
                    cmd = [swagger, "mixin", ip, mixp, "-o", op, "--format", of]
                elif c["cmd"] == "mixin_keeporder":
                    cmd = [swagger, "mixin", ip, mixp, "-o", op, "--format", of, "--keep-spec-order"]
                elif c["cmd"] == "mixin_sec":
                    cmd = [swagger, "mixin", mixp, ip, "-o", op, "--format", of]
                elif c["cmd"] == "mixin_sec_keeporder":
                    cmd = [swagger, "mixin", mixp, ip, "-o", op, "--format", of, "--keep-spec-order"]
                else:
                    cmd = [swagger, "generate", "spec", "-m", "-w", pkg, "-i", ip, "-o", op]
                if compact:
                    cmd.append("--compact")
                g = run.sh(cmd, cwd=pkg if c["cmd"] == "genspec" else wd, check=False, timeout=300)
                dg = digest([op])[0] if g.returncode == 0 else dict(digest="-")
                runs.append(dict(inFmt=inf, outFmt=of, compact=compact, exit=g.returncode, digest=dg["digest"],
                                 crashed="panic:" in g.stderr or "goroutine " in g.stderr, err=g.stderr[-200:] if g.returncode else "",
                                 xorderYaml="panic: yaml:" in g.stderr and "generator.WithAutoXOrder" in g.stderr,
                                 canon=dg.get("canon", "")[:1200] if c["pos"] in ("extension",) or True else ""))
        shutil.rmtree(wd, ignore_errors=True)
        return dict(ev="Runs", id=i, case=c, runs=runs, skipped=False)

    with concurrent.futures.ThreadPoolExecutor(max_workers=14) as ex:
        results = [r for r in ex.map(one, range(len(cases))) if r is not None]
    skipped = [r for r in results if r["skipped"]]
    events = [r for r in results if not r["skipped"]]
    slim = [dict(ev="Runs", id=e["id"], runs=[{k: r[k] for k in ("inFmt", "outFmt", "compact", "exit", "digest", "crashed")} for r in e["runs"]]) for e in events]
    tpath = run.path("trace.ndjson"); write_ndjson(tpath, slim)
    r = run.tlc("TraceYaml", "TraceYaml", workers=1, timeout=3000, files={"trace.ndjson": tpath}, allow_fail=True)
    if r["depth"] != len(events) + 1 or not r["ok"]:
        raise Infra("trace not fully consumed: depth %d of %d lines\n%s" % (r["depth"], len(events), r["out"][-3000:]))
    seen = set()
    for t, e in r["emitted"]:
        if t == "REJECT" and e["line"] not in seen:
            seen.add(e["line"])
            ev = events[e["line"] - 1]; c = ev["case"]
            sig = "%s | %s %s at %s" % (e["why"], c["cmd"], c["cls"], c["pos"])
            crashed = [r for r in ev["runs"] if r["crashed"]]
            if e["why"] == "the command crashed" and crashed and all(r.get("xorderYaml") and r["inFmt"] in ("json", "json_escaped") for r in crashed):
                # one defect, one call site: keyed by the call site and the command, not by the string class
                sig = "the command crashed | %s: WithAutoXOrder parses a JSON input with the YAML parser - JSON strings are not YAML scalars (the escapes \\/ and \\uD83D\\uDC36, a raw U+2028 in a key)" % c["cmd"]
            run.violations.append(dict(signature=sig, detail=ev))
    nruns = sum(len(e["runs"]) for e in events)
    cov = dict(states=mc["states"] + gen["states"], transitions=mc["transitions"] + gen["transitions"], traces_validated_against_impl=len(events),
               evaluations=nruns, distinct_nontrivial=len(events), cli_runs=nruns, skipped_inputs=len(skipped),
               skipped_classes=sorted({s["case"]["cls"] + "@" + s["case"]["pos"] for s in skipped})[:40],
               rule="scalar content class (43 ambiguous strings, 7 edge numbers) x position x command {flatten [minimal, full, remove-unused], expand, mixin [primary/secondary x keep-spec-order], generate spec, init spec}; per case the runs {json,yaml} input x {json,yaml} output + compact json",
               samples=[e["case"] for e in events[:3]], rejected_events=len(seen))
    import frame_family
    fv, fcov = frame_family.frame_stage(run); run.violations += fv; cov.update(fcov)
    return finish(run, "model_checking", cov, ASSUME)
