"""C09: free text from the spec never becomes code.  GoLex.tla is model-checked; its counterexamples
for the unescaped (context, escaper) pairs are the break-out payloads; every free-text site of a rich
document is made hostile, one at a time; the real generator runs; erased ASTs are compared."""
import re, os, json, shutil, copy, random, concurrent.futures
from common import *

ASSUME = [
    "go/parser and go/printer (AST with comments removed, string/char literal values erased, literal concatenations folded)",
    "one hostile site at a time; payload = lexical break-out (from GoLex counterexamples) + a syntactic filler valid as declaration / struct field / interface method",
]

NEUTRAL = "neutral text"


def base_spec():
    return {
        "swagger": "2.0",
        "info": {"title": NEUTRAL, "description": NEUTRAL, "termsOfService": NEUTRAL, "version": "1.0.0",
                 "contact": {"name": NEUTRAL, "url": "http://example.com", "email": "a@example.com"},
                 "license": {"name": NEUTRAL, "url": "http://example.com/license"}},
        "host": "api.example.com", "basePath": "/v1", "schemes": ["http"],
        "consumes": ["application/json"], "produces": ["application/json"],
        "externalDocs": {"description": NEUTRAL, "url": "http://example.com/docs"},
        "tags": [{"name": "things", "description": NEUTRAL, "externalDocs": {"description": NEUTRAL, "url": "http://example.com/t"}}],
        "securityDefinitions": {"key": {"type": "apiKey", "in": "header", "name": "X-Key", "description": NEUTRAL}},
        "paths": {"/things/{id}": {"post": {
            "operationId": "putThing", "tags": ["things"], "summary": NEUTRAL, "description": NEUTRAL,
            "externalDocs": {"description": NEUTRAL, "url": "http://example.com/op"},
            "security": [{"key": []}],
            "parameters": [
                {"name": "id", "in": "path", "required": True, "type": "string", "description": NEUTRAL, "pattern": "^a"},
                {"name": "q", "in": "query", "type": "string", "description": NEUTRAL, "default": NEUTRAL},
                {"name": "h", "in": "header", "type": "array", "items": {"type": "string", "pattern": "^b"}, "description": NEUTRAL},
                {"name": "body", "in": "body", "required": True, "description": NEUTRAL, "schema": {"$ref": "#/definitions/thing"}}],
            "responses": {"200": {"description": NEUTRAL, "schema": {"$ref": "#/definitions/thing"},
                                  "headers": {"X-Rate": {"type": "integer", "description": NEUTRAL}}},
                          "default": {"description": NEUTRAL, "schema": {"$ref": "#/definitions/error"}}}}}},
        "definitions": {
            "thing": {"type": "object", "title": NEUTRAL, "description": NEUTRAL, "required": ["name"],
                      "example": {"name": NEUTRAL},
                      "properties": {"name": {"type": "string", "title": NEUTRAL, "description": NEUTRAL, "default": NEUTRAL, "example": NEUTRAL},
                                     "code": {"type": "string", "description": NEUTRAL, "pattern": "^c"},
                                     "count": {"type": "integer", "description": NEUTRAL, "example": 3},
                                     "tags": {"type": "array", "description": NEUTRAL, "items": {"type": "string", "description": NEUTRAL}}}},
            "error": {"type": "object", "description": NEUTRAL, "properties": {"message": {"type": "string", "description": NEUTRAL}}},
            "alias": {"type": "string", "title": NEUTRAL, "description": NEUTRAL, "pattern": "^d"},
            "alias2": {"type": "string", "description": NEUTRAL, "default": NEUTRAL}}}


def sites(doc, path=()):
    """every string position holding free text (neutral text, patterns, version, host, basePath)"""
    out = []
    if isinstance(doc, dict):
        for k, v in doc.items():
            p = path + (k,)
            if isinstance(v, str):
                if v == NEUTRAL or k in ("pattern", "version", "host", "basePath", "termsOfService"):
                    out.append(p)
            else:
                out += sites(v, p)
    elif isinstance(doc, list):
        for i, v in enumerate(doc):
            out += sites(v, path + (i,))
    return out


def set_at(doc, path, val):
    d = doc
    for k in path[:-1]:
        d = d[k]
    d[path[-1]] = val


TOK = {"NL": "\n", "CRLF": "\r\n", "STARSLASH": "*/", "BQ": "`", "DQ": "\"", "BS": "\\", "TXT": "zz"}
FILLERS = {"decl": "var Injected_%d = 1", "field": "Injected_%d int", "method": "Injected_%d()"}


def payload_text(breakout, filler, n):
    """break out of the context with the abstract payload, place the filler, re-enter the context"""
    if len(breakout) == 2 and breakout[0] == breakout[1] and breakout[0] not in ("NL", "CRLF"):
        # the same break-out token twice: a harmless first occurrence, then the real payload (an escaper that only
        # defuses the first occurrence lets the second through)
        return "zz" + TOK[breakout[0]] + " yy " + payload_text(breakout[:1], filler, n)
    b = "".join(TOK[t] for t in breakout)
    f = FILLERS[filler] % n
    if all(t in ("NL", "CRLF") for t in breakout):
        # line terminators, possibly mixed: text, terminator, text, ..., last terminator, filler, re-enter
        out = "zz"
        for i, t in enumerate(breakout[:-1]):
            out += TOK[t] + "yy%d" % i
        last = TOK[breakout[-1]]
        return out + last + f + last + "// zz"
    if breakout == ["STARSLASH"]:
        return "zz " + b + " " + f + " /* zz"
    if breakout == ["BQ"]:
        if filler == "field":
            # inside a raw struct tag: end the tag, declare a field, comment out the rest of the line
            return "zz`; Injected_%d int // zz" % n
        return "zz` + Injected_%d + `zz" % n
    if breakout == ["DQ"]:
        return "zz\" + Injected_%d + \"zz" % n
    return "zz" + b


# model_tags: free text is also copied into struct tags when asked for (--struct-tags description / example)
TARGETS = {"server": ["generate", "server", "--name", "verif"], "client": ["generate", "client", "--name", "verif"],
           "cli": ["generate", "cli", "--name", "verif"],
           "server_expand": ["generate", "server", "--name", "verifx", "--server-package", "restapix", "--with-expand"],
           "model_tags": ["generate", "model", "--model-package", "tagged", "--struct-tags", "json", "--struct-tags", "description", "--struct-tags", "example", "--struct-tags", "yaml"]}


def nested_spec():
    """anonymous schemas everywhere, so that model planning has to lift them into new definitions"""
    inner = {"type": "object", "description": NEUTRAL, "properties": {"deep": {"type": "object", "properties": {"leaf": {"type": "string", "description": NEUTRAL}}}}}
    return {
        "swagger": "2.0", "info": {"title": "nested", "version": "2", "description": NEUTRAL},
        "basePath": "/", "consumes": ["application/json"], "produces": ["application/json"],
        "paths": {"/n": {"put": {"operationId": "putN", "description": NEUTRAL,
            "parameters": [{"name": "body", "in": "body", "required": True, "schema": {"type": "object", "required": ["a"], "properties": {
                "a": {"type": "array", "items": {"type": "object", "properties": {"x": {"type": "integer", "description": NEUTRAL}}}},
                "m": {"type": "object", "additionalProperties": {"type": "object", "properties": {"y": {"type": "string"}}}}}}}],
            "responses": {"200": {"description": NEUTRAL, "schema": {"type": "array", "items": inner}},
                          "default": {"description": NEUTRAL, "schema": {"$ref": "#/definitions/composed"}}}}}},
        "definitions": {
            "base": {"type": "object", "properties": {"id": {"type": "integer"}}},
            "composed": {"allOf": [{"$ref": "#/definitions/base"}, {"type": "object", "description": NEUTRAL, "properties": {"extra": inner}}]},
            "tuple": {"type": "array", "items": [{"type": "string"}, {"type": "object", "properties": {"t": {"type": "boolean"}}}]},
            "withMap": {"type": "object", "properties": {"p": {"type": "string", "description": NEUTRAL}}, "additionalProperties": {"type": "array", "items": {"type": "object", "properties": {"z": {"type": "number"}}}}}}}


CONTENT = {
    "plain": "plain text", "backtick": "a`b``c` + \"x\" + `", "dquote": 'say "hi" \'there\'', "backslash": "C:\\dir\\name \\n \\",
    "newline": "line1\nline2\r\nline3", "control": "bell\u0007 esc\u001b tab\t", "nonascii": "h\u00e9llo w\u00f6rld \u2713 \u65e5\u672c",
    "template": "{{ .Name }} ${x} %s %d %%", "html": "<b>&amp;</b> <script>",
}


def _start(run, drv, base, i):
    from server_family import run_driver
    return run_driver(run, drv, [dict(id=0, method="GET", path=base + "/swagger.json", rawQuery="", headers={}, full=True),
                                 dict(id=1, method="GET", path="/swagger.json", rawQuery="", headers={}, full=True)], "e%d" % i)


def run_generated_main(run, mod, base, i):
    """build and start the generated server program, fetch /swagger.json from it; None if it panics while starting"""
    import subprocess, urllib.request, time as _t, select
    out = run.path("bin", "main-e%d" % i)
    b = run.sh(["go", "build", "-o", out, "./cmd/verif-server"], cwd=mod, check=False, timeout=1800)
    if b.returncode != 0:
        raise Infra("the generated main program does not build (a C01 matter): " + b.stderr[-1500:])
    p = subprocess.Popen([out, "--scheme", "http", "--host", "127.0.0.1", "--port", "0"], cwd=mod, stdout=subprocess.DEVNULL, stderr=subprocess.PIPE, text=True)
    try:
        buf, t0, url = "", _t.time(), None
        while _t.time() - t0 < 60:
            if select.select([p.stderr], [], [], 0.5)[0]:
                line = p.stderr.readline()
                if not line:
                    break
                buf += line
                m = re.search(r"Serving \S+ at (http://127\.0\.0\.1:\d+)", line)
                if m:
                    url = m.group(1); break
            elif p.poll() is not None:
                break
        if url is None:
            if "panic:" in buf or "invalid reference" in buf or "cannot" in buf.lower():
                return None
            raise Infra("the generated main program did not announce its address: " + buf[-1500:])
        last = None
        for pth in (base + "/swagger.json", "/swagger.json"):
            try:
                with urllib.request.urlopen(url + pth, timeout=20) as r:
                    return r.read()
            except Exception as e:
                last = e
        raise Infra("GET /swagger.json from the generated main program: %s" % last)
    finally:
        p.kill(); p.wait()


def check_c10(run):
    from server_family import build_server, run_driver
    vh = run.build_vh()
    mc = run.tlc("Embed", "MCEmbed", workers=1, timeout=600)
    if not mc["ok"]:
        raise Infra("Embed design check failed: " + mc["out"][-2000:])
    gen = run.tlc("GenEmbed", "GenEmbed", workers=1, timeout=600)
    cases = sorted((e for t, e in gen["emitted"] if t == "CASE"), key=lambda c: json.dumps(c, sort_keys=True))
    if run.tier == "quick":
        cases = [c for c in cases if c["content"] == "plain" or (c["fmt"], c["mode"]) in (("json", "minimal"), ("yaml", "expand"), ("json", "full"))]
    flags = {"minimal": [], "full": ["--with-flatten=full"], "expand": ["--with-expand"]}

    def one(i):
        c = cases[i]
        doc = nested_spec() if c["doc"] == "nested" else base_spec()
        if c["doc"] == "noids":
            ok = {"200": {"description": "ok"}}
            for pi in doc["paths"].values():
                for m, op in pi.items():
                    if isinstance(op, dict) and "operationId" in op:
                        del op["operationId"]
            doc["paths"]["/pets"] = {"get": {"responses": ok}, "post": {"responses": ok}}
            doc["paths"]["/other"] = {"post": {"operationId": "GetPets", "responses": ok}, "get": {"operationId": "listOther", "responses": ok}}
        for s in sites(doc):
            d = doc
            for k in s[:-1]:
                d = d[k]
            if d[s[-1]] == NEUTRAL:
                d[s[-1]] = CONTENT[c["content"]]
        if c["doc"] == "multifile":
            # definitions and one shared parameter live in sibling files
            d = run.path("embed-%d" % i, "swagger.json"); d = os.path.dirname(d)
            defs = doc.pop("definitions")
            json.dump({"definitions": defs}, open(os.path.join(d, "defs.json"), "w"))
            json.dump({"parameters": {"limit": {"name": "limit", "in": "query", "type": "integer", "maximum": 50}}}, open(os.path.join(d, "params.json"), "w"))
            txt = json.dumps(doc).replace('"#/definitions/', '"defs.json#/definitions/')
            doc = json.loads(txt)
            for pth in doc["paths"].values():
                for m, op in pth.items():
                    if m in ("get", "post", "put", "delete") and not any(p.get("name") == "limit" for p in op.get("parameters", []) if isinstance(p, dict)):
                        op.setdefault("parameters", []).append({"$ref": "params.json#/parameters/limit"})
            jp = os.path.join(d, "swagger.json")
        else:
            jp = run.path("embed-%d.json" % i)
        json.dump(doc, open(jp, "w"))
        sp = jp
        if c["fmt"] == "yaml":
            sp = jp[:-5] + ".yaml"
            run.sh([vh, "to-yaml", jp, sp])
            if c["doc"] == "multifile":
                os.remove(jp)
        drv, err = build_server(run, "e%d" % i, sp, extra_flags=flags[c["mode"]])
        ev = dict(ev="Embedded", case=c, built=bool(drv), started=bool(drv), err=err[-400:] if not drv else "")
        blank = dict(input="-", orig="-", served="-", inputPaths="-", flatPaths="-", inputSecurity="-", flatSecurity="-", missingDefs=0, mainRun=False, mainStarted=False, mainServed="-")
        if not drv:
            ev.update(blank)
            ev["refused"] = err.startswith("generate")
            return ev
        base = doc.get("basePath", "/").rstrip("/")
        ev["started"] = True
        try:
            start, resp = _start(run, drv, base, i)
        except Infra as e:
            # the server built but its API cannot be set up (the embedded flattened document drives it)
            ev.update(blank); ev["started"] = False; ev["err"] = str(e)[-600:]
            return ev
        open(run.path("orig-%d.b64" % i), "w").write(start["swaggerJSON"])
        open(run.path("flat-%d.b64" % i), "w").write(start["flatSwaggerJSON"])
        import base64
        served = run.path("served-%d.json" % i)
        ok = [r for r in resp if r["status"] == 200]
        open(served, "wb").write(base64.b64decode(ok[0]["fullBody"]) if ok else b"{}")
        cmp_ = json.loads(run.sh([vh, "embed-compare", "-input", sp, "-orig", run.path("orig-%d.b64" % i),
                                  "-flat", run.path("flat-%d.b64" % i), "-served", served]).stdout)
        ev.update({k: cmp_.get(k, "-") for k in blank})
        ev["missing"] = cmp_.get("missing", [])
        ev["servedStatus"] = ok[0]["status"] if ok else resp[0]["status"]
        ev["expandErr"] = cmp_.get("expandErr", "")
        # the generated MAIN program (cmd/<name>-server): how it loads the two embedded documents is generated code too
        ev["mainRun"], ev["mainStarted"], ev["mainServed"] = False, False, "-"
        if c["content"] == "plain":
            ms = run_generated_main(run, os.path.join(run.work, "srv-e%d" % i), base, i)
            ev["mainRun"], ev["mainStarted"] = True, ms is not None
            if ms is not None:
                mp = run.path("mainserved-%d.json" % i); open(mp, "wb").write(ms)
                ev["mainServed"] = json.loads(run.sh([vh, "embed-compare", "-input", sp, "-orig", run.path("orig-%d.b64" % i),
                                                      "-flat", run.path("flat-%d.b64" % i), "-served", mp]).stdout).get("served", "-")
        shutil.rmtree(os.path.join(run.work, "srv-e%d" % i), ignore_errors=True)
        return ev

    with concurrent.futures.ThreadPoolExecutor(max_workers=12) as ex:
        events = list(ex.map(one, range(len(cases))))
    nobuild = [e for e in events if not e["built"] and not e.get("refused")]
    tpath = run.path("trace.ndjson"); write_ndjson(tpath, events)
    r = run.tlc("TraceEmbed", "TraceEmbed", workers=1, timeout=3000, files={"trace.ndjson": tpath}, allow_fail=True)
    if r["depth"] != len(events) + 1 or not r["ok"]:
        raise Infra("trace not fully consumed: depth %d of %d lines\n%s" % (r["depth"], len(events), r["out"][-3000:]))
    seen = set()
    for t, e in r["emitted"]:
        if t == "REJECT" and e["line"] not in seen:
            seen.add(e["line"])
            ev = events[e["line"] - 1]; c = ev["case"]
            sig = "%s | doc=%s mode=%s" % (e["why"], c["doc"], c["mode"])
            if "flattened" in e["why"] or "definition" in e["why"]:
                sig += " missing=%s" % ",".join(sorted(ev.get("missing", []))[:4])
            else:
                sig += " fmt=%s content=%s" % (c["fmt"], c["content"])
            run.violations.append(dict(signature=sig, detail=ev))
    built = sum(1 for e in events if e["built"])
    if built < len(events) // 2:
        raise Infra("most servers could not be built: " + (nobuild[0]["err"] if nobuild else events[0]["err"]))
    cov = dict(states=mc["states"] + gen["states"], transitions=mc["transitions"] + gen["transitions"], traces_validated_against_impl=built,
               evaluations=len(events), distinct_nontrivial=built,
               rule="documents {rich, nested anonymous schemas} x input format {json, yaml} x flatten mode {minimal, full, expand} x string content class (quick: all modes/formats with plain content + content classes under three mode/format pairs)",
               samples=[e["case"] for e in events[:3]], servers_built=built, not_built=len(events) - built, rejected_events=len(seen))
    import frame_family
    fv, fcov = frame_family.frame_stage(run); run.violations += fv; cov.update(fcov)
    return finish(run, "model_checking", cov, ["spec.ExpandSpec and loads (pinned dependencies) resolve $refs faithfully",
                                               "the YAML rendering of the input is produced by yaml.v3 with double-quoted scalars"])


def check(run, replay=None):
    if run.pid == "C10":
        return check_c10(run)
    vh = run.build_vh(); swagger = run.build_swagger()
    mc = run.tlc("GoLex", "MCGoLex", workers=1, timeout=900)
    if not mc["ok"]:
        raise Infra("GoLex design check failed: " + mc["out"][-2000:])
    # shortest break-out per context for the unescaped pairs
    # every shortest (one-token) break-out of the unescaped (context, no escaper) pairs
    breakouts = sorted({json.dumps(e["payload"]) for t, e in mc["emitted"] if t == "CASE" and e["esc"] == "none" and len(e["payload"]) == 1})
    breakouts = [json.loads(b) for b in breakouts]
    if len(breakouts) < 5:
        raise Infra("GoLex produced too few break-out payloads: %r" % breakouts)
    # mixes of the two line terminators (an escaper that normalises one of them must not let the other through)
    if ["NL"] in breakouts and ["CRLF"] in breakouts:
        breakouts += [["CRLF", "NL"], ["NL", "CRLF"]]
    # the same token twice (an escaper must defuse every occurrence, not the first one)
    breakouts += [[b[0], b[0]] for b in list(breakouts) if len(b) == 1 and b[0] in ("STARSLASH", "BQ", "DQ")]
    base = base_spec()
    all_sites = sites(base)
    combos = []
    for s in all_sites:
        for b in breakouts:
            fills = ["decl", "field", "method"] if b in (["NL"], ["STARSLASH"], ["CRLF", "NL"]) else (["decl", "field"] if b == ["BQ"] else ["decl"])
            for f in fills:
                combos.append((s, b, f))
    rnd = random.Random(run.seed)
    if run.tier == "quick":
        # every site with every break-out; a declaration filler always (valid wherever a comment of a
        # file-level declaration is broken), a struct-field filler for the single line terminators and */
        # (valid where the comment of a struct field is broken); the method filler in the thorough tier
        combos = [c for c in combos if c[2] == "decl" or (c[2] == "field" and c[1] in (["NL"], ["STARSLASH"], ["BQ"]))]

    def generate(doc, tag):
        mod = run.scratch_module("lex-" + tag, modname="scratch/gen")
        sp = os.path.join(mod, "spec.json"); json.dump(doc, open(sp, "w"))
        rc, err = 0, ""
        for tname, targs in TARGETS.items():
            g = run.sh([swagger] + targs + ["-f", sp, "-t", mod], cwd=mod, check=False, timeout=900)
            if g.returncode != 0:
                rc, err = g.returncode, g.stderr
                break
        dig = json.loads(run.sh([vh, "ast-digest", "-dir", mod]).stdout) if rc == 0 else dict(files={}, parseErrors=[])
        shutil.rmtree(mod, ignore_errors=True)
        return rc, err, dig

    nrc, nerr, ndig = generate(base, "neutral")
    events = [dict(ev="Neutral", genExit=nrc)]
    if nrc != 0:
        raise Infra("the neutral document cannot be generated: " + nerr[-1500:])

    def one(i):
        s, b, f = combos[i]
        doc = copy.deepcopy(base)
        set_at(doc, s, payload_text(b, f, i))
        rc, err, dig = generate(doc, "h%d" % i)
        changed = sorted(k for k in set(dig["files"]) | set(ndig["files"]) if dig["files"].get(k) != ndig["files"].get(k)) if rc == 0 else []
        return dict(ev="Inject", site="/".join(str(x) for x in s), breakout="".join(b), filler=f, genExit=rc,
                    errorPrinted=len(err.strip()) > 0, parseErrors=len(dig["parseErrors"]),
                    sameFiles=(rc != 0) or set(dig["files"]) == set(ndig["files"]), astEqual=(rc != 0) or not changed,
                    changed=changed[:6], err=err[-200:] if rc else "")

    with concurrent.futures.ThreadPoolExecutor(max_workers=14) as ex:
        events += list(ex.map(one, range(len(combos))))
    tpath = run.path("trace.ndjson"); write_ndjson(tpath, events)
    r = run.tlc("TraceLex", "TraceLex", workers=1, timeout=3000, files={"trace.ndjson": tpath}, allow_fail=True)
    if r["depth"] != len(events) + 1 or not r["ok"]:
        raise Infra("trace not fully consumed: depth %d of %d lines\n%s" % (r["depth"], len(events), r["out"][-3000:]))
    seen = set()
    for t, e in r["emitted"]:
        if t == "REJECT" and e["line"] not in seen:
            seen.add(e["line"])
            ev = events[e["line"] - 1]
            sig = "%s | site %s break-out %s -> %s" % (e["why"], ev.get("site"), ev.get("breakout"), ",".join(ev.get("changed", [])[:3]))
            run.violations.append(dict(signature=sig, detail=ev))
    refused = sum(1 for e in events if e["ev"] == "Inject" and e["genExit"] != 0)
    cov = dict(states=mc["states"], transitions=mc["transitions"], traces_validated_against_impl=len(combos), evaluations=len(combos),
               distinct_nontrivial=len(combos), sites=len(all_sites), breakouts=["".join(b) for b in breakouts],
               rule="every free-text site of the base document x every break-out payload TLC derives for the unescaped (context, escaper) pairs x syntactic filler (quick: one seeded filler per site and break-out); targets server+client+cli",
               samples=[dict(site=e["site"], breakout=e["breakout"], filler=e["filler"], genExit=e["genExit"]) for e in events[1:4]],
               generation_refused=refused, rejected_events=len(seen))
    return finish(run, "model_checking", cov, ASSUME)
