"""C02 / C05 (/ C18): generated models.  TLC enumerates definitions (leaf x wrapper) and instances
(ModelCases), the real generator writes the models, the Go compiler builds them with a generic
driver, the driver decodes / validates / re-encodes every instance, TLC judges the trace."""
import os, json, shutil
from common import *

ASSUME = [
    "go compiler, encoding/json, go-openapi strfmt/validate/swag (pinned dependencies) are correct",
    "bounded universe: 30 leaf schemas x 12 wrapper positions, instances = boundary values of every constraint, zero values, wrong types, null, absent",
    "two-oracle rule: a verdict is issued only where JsonSchema!Valid agrees with go-openapi validate.AgainstSchema on the (schema, document) pair",
]


def generate_and_build(run, cases):
    vh = run.build_vh(); swagger = run.build_swagger()
    mod = run.scratch_module("gen")
    write_ndjson(run.path("defs.ndjson"), [dict(name=c["name"], schema=c["schema"]) for c in cases])
    spec = run.path("spec.json")
    run.sh([vh, "model-materialise", "-defs", run.path("defs.ndjson"), "-out", spec])
    g = run.sh([swagger, "generate", "model", "-f", spec, "-t", mod], cwd=mod, check=False, timeout=1200)
    events = [dict(ev="Generate", exit=g.returncode)]
    if g.returncode != 0:
        return events, None, g.stderr[-2000:]
    os.makedirs(os.path.join(mod, "drv"), exist_ok=True)
    run.sh([vh, "model-registry", "-pkg", os.path.join(mod, "models"), "-import", "scratch/gen/models",
            "-out", os.path.join(mod, "drv", "registry.go")])
    shutil.copy(os.path.join(HARNESS, "drivers", "modeldrv", "main.go.txt"), os.path.join(mod, "drv", "main.go"))
    b = run.sh(["go", "build", "-o", run.path("bin", "modeldrv"), "./drv"], cwd=mod, check=False, timeout=1800)
    events.append(dict(ev="Build", ok=b.returncode == 0, err=b.stderr[-1500:]))
    if b.returncode != 0:
        return events, None, b.stderr[-3000:]
    return events, run.path("bin", "modeldrv"), ""


def check(run, replay=None):
    prop = run.pid
    gen = run.tlc("GenModels", "GenModels", workers=1, timeout=900)
    if not gen["ok"]:
        raise Infra("GenModels failed: " + gen["out"][-2000:])
    cases = [e for t, e in gen["emitted"] if t == "CASE"]
    cases.sort(key=lambda c: c["name"])
    # definitions whose generated code does not build are a C01 matter: they are set aside (and listed
    # in the evidence) so that the rest of the universe is explored
    import re
    excluded = []
    for attempt in range(4):
        events, drv, err = generate_and_build(run, cases)
        if drv or "models/" not in err:
            break
        bad = {m for m in re.findall(r"models/([a-z0-9_]+)\.go:", err)}
        drop = [c for c in cases if re.sub("_+", "_", c["name"]) in bad]
        if not drop:
            break
        excluded += [c["name"] for c in drop]
        cases = [c for c in cases if c not in drop]
        shutil.rmtree(os.path.join(run.work, "gen"), ignore_errors=True)
        try:
            os.remove(run.path("bin", "modeldrv"))
        except OSError:
            pass
    if prop == "C18":
        return check_c18(run, gen, cases, events, drv, err, excluded)
    insts = []
    for c in cases:
        for i, d in enumerate(c["instances"]):
            insts.append(dict(**{"def": c["name"]}, i=i, doc=d))
    ipath = run.path("instances.ndjson"); write_ndjson(ipath, insts)
    tpath = run.path("trace.ndjson")
    if drv:
        out = run.sh([drv, ipath], timeout=1800)
        events += [json.loads(l) for l in out.stdout.splitlines() if l.strip()]
    if not drv:
        # C02/C05 quantify over generated programs: without them nothing was explored
        raise Infra("the generated models could not be produced or built: " + err)
    write_ndjson(tpath, events)
    r = run.tlc("TraceModels", "TraceModels_" + prop, workers=1, timeout=3000, files={"trace.ndjson": tpath}, allow_fail=True)
    if r["depth"] != len(events) + 1 or not r["ok"]:
        raise Infra("trace not fully consumed: depth %d of %d lines\n%s" % (r["depth"], len(events), r["out"][-3000:]))
    rejects, seen = [], set()
    for t, e in r["emitted"]:
        if t == "REJECT" and e["line"] not in seen:
            seen.add(e["line"]); rejects.append(e)
    # calibration: the reference validator's verdict on the rejected pairs
    vh = run.build_vh()
    rej_insts = [dict(**{"def": events[e["line"] - 1]["def"]}, i=events[e["line"] - 1]["i"], doc=events[e["line"] - 1]["doc"])
                 for e in rejects if events[e["line"] - 1]["ev"] == "Model"]
    refv = {}
    if rej_insts:
        write_ndjson(run.path("calib.ndjson"), rej_insts)
        cal = run.sh([vh, "model-calib", "-spec", run.path("spec.json"), "-instances", run.path("calib.ndjson")])
        for l in cal.stdout.splitlines():
            if l.strip():
                x = json.loads(l); refv[(x["def"], x["i"])] = x["valid"]
    skipped = {}
    for e in rejects:
        ev = events[e["line"] - 1]
        if ev["ev"] != "Model":
            run.violations.append(dict(signature=e["why"], detail=ev))
            continue
        leaf, wrap = ev["def"].split("__")
        ref = refv.get((ev["def"], ev["i"]))
        if prop == "C02" and ref is not None and ref != e["valid"]:
            k = "%s: TLA+ Valid=%s reference=%s" % (leaf, e["valid"], ref)
            skipped[k] = skipped.get(k, 0) + 1
            continue
        sig = "%s: %s" % (ev["def"], e["why"])
        run.violations.append(dict(signature=sig, detail=dict(definition=ev["def"], why=e["why"], doc=ev["doc"],
                                   decodeErr=ev.get("decodeErr"), validateErr=ev.get("validateErr"), err=ev.get("errText", "")[:300],
                                   out1=ev.get("out1"), schema=next(c["schema"] for c in cases if c["name"] == ev["def"]))))
    cov = dict(states=gen["states"], transitions=gen["transitions"], traces_validated_against_impl=len(insts),
               definitions=len(cases), trace_events=len(events), evaluations=len(insts),
               distinct_nontrivial=len({json.dumps([x["def"], x["doc"]]) for x in insts}),
               rule="every definition of ModelCases (leaf x wrapper) x every instance of Instances(def); all pairs distinct",
               samples=[insts[0], insts[len(insts) // 2]], rejected_events=len(rejects),
               calibration_skipped=skipped, exhaustive=True, build_error=err[:500],
               definitions_set_aside_because_generated_code_does_not_build=excluded)
    return finish(run, "model_checking", cov, ASSUME)


def check_c18(run, gen, cases, events, drv, err, excluded):
    """spec -> generated models -> codescan -> definitions; TLC compares with JsonSchema!SchemaDiffs."""
    if events[0]["exit"] != 0:
        raise Infra("generate model failed: " + err)
    vh = run.build_vh()
    mod = os.path.join(run.work, "gen")
    run.sh([vh, "scan-models", "-dir", mod, "-pkg", "./models", "-out", run.path("scanned.ndjson"), "-raw", run.path("scanned.json")],
           cwd=mod, timeout=1800)
    sc = read_ndjson(run.path("scanned.ndjson"))
    found = {e["def"]: e["schema"] for e in sc[1:]}
    sc[0]["defs"] = found
    events = [e for e in events if e["ev"] == "Generate"] + [sc[0]]
    for c in cases:
        events.append(dict(ev="Scanned", found=c["name"] in found, schema=found.get(c["name"], {}), **{"def": c["name"]}))
    tpath = run.path("trace.ndjson"); write_ndjson(tpath, events)
    r = run.tlc("TraceModels", "TraceModels_C18", workers=1, timeout=3000, files={"trace.ndjson": tpath}, allow_fail=True)
    if r["depth"] != len(events) + 1 or not r["ok"]:
        raise Infra("trace not fully consumed: depth %d of %d lines\n%s" % (r["depth"], len(events), r["out"][-3000:]))
    rejects, seen = [], set()
    for t, e in r["emitted"]:
        if t == "REJECT" and e["line"] not in seen:
            seen.add(e["line"]); rejects.append(e)
    for e in rejects:
        ev = events[e["line"] - 1]
        if ev["ev"] != "Scanned":
            run.violations.append(dict(signature=e["why"], detail=ev)); continue
        diffs = " ".join(sorted(e["why"].split()))
        run.violations.append(dict(signature="%s: %s" % (ev["def"], diffs),
                                   detail=dict(definition=ev["def"], differs=diffs, scanned=ev["schema"],
                                               original=next(c["schema"] for c in cases if c["name"] == ev["def"]))))
    cov = dict(states=gen["states"], transitions=gen["transitions"], traces_validated_against_impl=len(cases),
               definitions=len(cases), evaluations=len(cases), distinct_nontrivial=len(cases),
               rule="every definition of ModelCases through generate model and codescan; all distinct",
               samples=[dict(definition=c["name"], schema=c["schema"]) for c in cases[:2]], rejected_events=len(rejects),
               exhaustive=True, definitions_set_aside_because_generated_code_does_not_build=excluded)
    return finish(run, "model_checking", cov, ASSUME[:2] + ["golang.org/x/tools/go/packages loads the generated package offline"])
