"""C08: no operation or definition is silently dropped or merged.  TLC enumerates pairs of names
(same abstract Go identifier / near misses) at each position; each pair becomes a document; the real
generator, compiler and generated router are observed; TLC validates the life-cycle trace."""
import os, json, shutil, urllib.parse, concurrent.futures
from common import *
from server_family import build_server, run_driver

ASSUME = [
    "go/parser counts of client methods and swagger:model types, reflection count of handler fields",
    "names: 1-2 words from a 6-word vocabulary x 3 case forms x 5 separators; pairs sampled with RandomSubset (seeded)",
]


def spec_for(c):
    a, b, pos = c["a"], c["b"], c["pos"]
    resp = lambda ref: {"200": {"description": "ok", "schema": {"$ref": "#/definitions/" + ref}}}
    defs = {"base": {"type": "object", "properties": {"x": {"type": "string"}}}}
    paths, routes = {}, []
    if pos == "opid":
        paths["/p1"] = {"get": {"operationId": a, "responses": resp("base")}}
        paths["/p2"] = {"get": {"operationId": b, "responses": resp("base")}}
        routes = ["/p1", "/p2"]
    elif pos == "path":
        paths["/" + a] = {"get": {"responses": resp("base")}}
        paths["/" + b] = {"get": {"responses": resp("base")}}
        routes = ["/" + urllib.parse.quote(a), "/" + urllib.parse.quote(b)]
    elif pos == "def":
        defs[a] = {"type": "object", "properties": {"first": {"type": "string"}}}
        defs[b] = {"type": "object", "properties": {"second": {"type": "integer"}}}
        esc = lambda n: n.replace("~", "~0").replace("/", "~1")
        paths["/p1"] = {"get": {"operationId": "one", "responses": {"200": {"description": "ok", "schema": {"$ref": "#/definitions/" + urllib.parse.quote(esc(a))}}}}}
        paths["/p2"] = {"get": {"operationId": "two", "responses": {"200": {"description": "ok", "schema": {"$ref": "#/definitions/" + urllib.parse.quote(esc(b))}}}}}
        routes = ["/p1", "/p2"]
    if pos in ("opid", "path"):
        # an operation under another method next to the pair: counting operations per method is not enough
        paths["/zz-other"] = {"post": {"operationId": "zzOtherPost", "responses": resp("base")}, "delete": {"operationId": "zzOtherDelete", "responses": resp("base")}}
        routes = [("GET", r) for r in routes] + [("POST", "/zz-other"), ("DELETE", "/zz-other")]
    if pos == "suffix":
        defs["campaign_" + a] = {"type": "object", "properties": {"n": {"type": "integer"}}}
        paths["/reports/" + a] = {"get": {"operationId": "report_" + a, "responses": resp("campaign_" + a)}}
        paths["/hosts"] = {"get": {"operationId": "host " + a, "responses": resp("base")}}
        routes = [("GET", "/reports/" + a), ("GET", "/hosts")]
    base_path = None
    if pos == "shape":
        op = lambda oid, params=(): {"operationId": oid, "parameters": [{"name": n, "in": "path", "required": True, "type": "string"} for n in params],
                                     "responses": resp("base")}
        table = {
            "root": ({"/": {"get": op("getRoot")}, "/status": {"get": op("getStatus")}}, [("GET", "/"), ("GET", "/status")]),
            "param_vs_static": ({"/things/{id}": {"get": op("getThing", ["id"])}, "/things/all": {"get": op("getAllThings")}},
                                [("GET", "/things/7"), ("GET", "/things/all")]),
            "prefix": ({"/a": {"get": op("getA")}, "/a/b": {"get": op("getAB")}, "/a/b/c": {"get": op("getABC")}},
                       [("GET", "/a"), ("GET", "/a/b"), ("GET", "/a/b/c")]),
            "methods": ({"/things": {"get": op("listThings"), "post": op("createThing"), "delete": op("dropThings")}},
                        [("GET", "/things"), ("POST", "/things"), ("DELETE", "/things")]),
            "basepath": ({"/things": {"get": op("listThings")}, "/things/{id}": {"get": op("getThing", ["id"])}},
                         [("GET", "/v1/things"), ("GET", "/v1/things/7")]),
            "root_and_param": ({"/": {"get": op("getRoot")}, "/{id}": {"get": op("getByID", ["id"])}}, [("GET", "/"), ("GET", "/7")]),
        }
        def tagged(o, tags):
            o = dict(o); o["tags"] = tags; return o
        table["tags_selected"] = ({"/reports": {"get": tagged(op("listReports"), ["admin", "billing"])}, "/invoices": {"get": tagged(op("listInvoices"), ["billing"])},
                                   "/ledgers": {"get": tagged(op("listLedgers"), ["billing", "admin"])}, "/audits": {"get": tagged(op("listAudits"), ["ops", "admin", "billing"])},
                                   "/users": {"get": tagged(op("listUsers"), ["admin"])}},
                                  [("GET", "/reports"), ("GET", "/invoices"), ("GET", "/ledgers"), ("GET", "/audits")])
        # a path item given as a $ref into a sibling file (multi-file documents): its operations are operations of the API
        table["pathitem_ref"] = ({"/things": {"get": op("listThings")}, "/gadgets": {"$ref": "@@PATHITEMS@@#/gadgets"}},
                                 [("GET", "/things"), ("GET", "/gadgets"), ("POST", "/gadgets")])
        paths, routes = table[a]
        if a == "basepath":
            base_path = "/v1"
    doc = {"swagger": "2.0", "info": {"title": "verif names", "version": "1"}, "produces": ["application/json"],
           "consumes": ["application/json"], "paths": paths, "definitions": defs}
    if base_path:
        doc["basePath"] = base_path
    routes = [r if isinstance(r, tuple) else ("GET", r) for r in routes]
    nops = sum(len(v) for v in paths.values())
    if pos == "shape" and a in ("tags_selected", "pathitem_ref"):
        nops = len(routes)          # the operations carrying the selected tag / the operations behind the $ref
    return doc, routes, nops, len(defs)


def extra_files(c):
    """sibling files of the document (name -> content); the document refers to them as @@NAME@@"""
    if c["pos"] == "shape" and c["a"] == "pathitem_ref":
        op = lambda oid: {"operationId": oid, "responses": {"200": {"description": "ok"}}}
        return {"PATHITEMS": {"gadgets": {"get": op("listGadgets"), "post": op("createGadget")}}}
    return {}


def gen_flags(c):
    return ["--tags", "billing"] if c["pos"] == "shape" and c["a"] == "tags_selected" else []


def check(run, replay=None):
    vh = run.build_vh(); swagger = run.build_swagger()
    nc, nm = (10, 4) if run.tier == "quick" else (60, 20)
    gen = run.tlc("GenNames", "GenNames", workers=1, timeout=900, extra=["-seed", str(run.seed)],
                  cfg_subst={"NCollide = 10": "NCollide = %d" % nc, "NMiss = 4": "NMiss = %d" % nm})
    if not gen["ok"]:
        raise Infra("GenNames failed: " + gen["out"][-2000:])
    cases = sorted((e for t, e in gen["emitted"] if t == "CASE"), key=lambda c: json.dumps(c, sort_keys=True))

    def one(i):
        c = cases[i]
        doc, routes, nops, ndefs = spec_for(c)
        sp = run.path("names-%d.json" % i)
        txt = json.dumps(doc)
        for name, content in extra_files(c).items():
            fn = "names-%d-%s.json" % (i, name.lower())
            json.dump(content, open(run.path(fn), "w"))
            txt = txt.replace("@@%s@@" % name, fn)
        open(sp, "w").write(txt)
        tag = "n%d" % i
        mod = run.scratch_module("srv-" + tag, modname="scratch/gen")
        evs = []
        g = run.sh([swagger, "generate", "server", "-f", sp, "-t", mod, "--name", "verif"] + gen_flags(c), cwd=mod, check=False, timeout=900)
        if g.returncode == 0:
            g2 = run.sh([swagger, "generate", "client", "-f", sp, "-t", mod, "--name", "verif"] + gen_flags(c), cwd=mod, check=False, timeout=900)
            rc, errtxt = g2.returncode, g2.stderr
        else:
            rc, errtxt = g.returncode, g.stderr
        evs.append(dict(ev="Generate", case=i, exit=rc, errorPrinted=len(errtxt.strip()) > 0, nOps=nops, nDefs=ndefs, err=errtxt[-300:] if rc else ""))
        if rc != 0:
            shutil.rmtree(mod, ignore_errors=True)
            if g.returncode != 0:
                # the server is refused: `generate client` has its own path through the generator - alone, it
                # must refuse too, or produce one method per operation
                cmod = run.scratch_module("cli-" + tag, modname="scratch/gen")
                gc = run.sh([swagger, "generate", "client", "-f", sp, "-t", cmod, "--name", "verif"], cwd=cmod, check=False, timeout=900)
                if gc.returncode == 0:
                    cnt = json.loads(run.sh([vh, "count-gen", "-dir", cmod]).stdout)
                    evs.append(dict(ev="ClientOnly", case=i, nClientMethods=cnt["nClientMethods"], nOps=nops))
                shutil.rmtree(cmod, ignore_errors=True)
            return evs
        os.makedirs(os.path.join(mod, "drv"), exist_ok=True)
        shutil.copy(os.path.join(HARNESS, "drivers", "serverdrv", "main.go.txt"), os.path.join(mod, "drv", "main.go"))
        shutil.copy(os.path.join(HARNESS, "drivers", "serverdrv", "noclient.go.txt"), os.path.join(mod, "drv", "noclient.go"))
        out = run.path("bin", "serverdrv-" + tag)
        b = run.sh(["go", "build", "-o", out, "./drv"], cwd=mod, check=False, timeout=1800)
        evs.append(dict(ev="Build", case=i, ok=b.returncode == 0, err=b.stderr[-600:]))
        cnt = json.loads(run.sh([vh, "count-gen", "-dir", mod]).stdout)
        nh = -1
        resp = []
        if b.returncode == 0:
            start, resp = run_driver(run, out, [dict(id=k, method=m, path=r, rawQuery="", headers={}) for k, (m, r) in enumerate(routes)], tag)
            nh = len(start["handlers"])
        evs.append(dict(ev="Inspect", case=i, nHandlers=nh, nClientMethods=cnt["nClientMethods"], nModelTypes=cnt["nModelTypes"]))
        for k, r in enumerate(resp):
            evs.append(dict(ev="Route", case=i, path=" ".join(routes[k]), reached=r["reached"], handler=r["handler"] or "none", status=r["status"]))
        shutil.rmtree(mod, ignore_errors=True)
        return evs

    with concurrent.futures.ThreadPoolExecutor(max_workers=8) as ex:
        results = list(ex.map(one, range(len(cases))))
    events = [e for evs in results for e in evs]
    tpath = run.path("trace.ndjson"); write_ndjson(tpath, events)
    r = run.tlc("TraceNames", "TraceNames", workers=1, timeout=3000, files={"trace.ndjson": tpath}, allow_fail=True)
    if r["depth"] != len(events) + 1 or not r["ok"]:
        raise Infra("trace not fully consumed: depth %d of %d lines\n%s" % (r["depth"], len(events), r["out"][-3000:]))
    rejects, seen = [], set()
    for t, e in r["emitted"]:
        if t == "REJECT" and e["line"] not in seen:
            seen.add(e["line"]); rejects.append(e)
    for e in rejects:
        ev = events[e["line"] - 1]
        c = cases[ev["case"]]
        sig = "%s | %s: %r vs %r" % (e["why"], c["pos"], c["a"], c["b"])
        run.violations.append(dict(signature=sig, detail=dict(case=c, event=ev)))
    refused = sum(1 for e in events if e["ev"] == "Generate" and e["exit"] != 0)
    cov = dict(states=gen["states"], transitions=gen["transitions"], traces_validated_against_impl=len(cases), evaluations=len(cases),
               distinct_nontrivial=sum(1 for c in cases if c["expectCollision"]),
               rule="pairs of names per position (operationId, path without operationId, definition): same abstract Go identifier (non-trivial) and near misses",
               samples=cases[:3], generation_refused=refused, rejected_events=len(rejects))
    return finish(run, "model_checking", cov, ASSUME)
