"""The workspace frame (GoSwagger.tla) bound to the real CLI: TLC generates command histories, `vh frame-drive`
executes them, TraceGoSwagger.tla replays them.  Used as an additional stage by the checks of the properties
the frame composes (C10 C11 C12 C13 C19): each check keeps the rejections tagged with its own property;
FRAME-tagged mismatches (composition rules no listed property states) go to the evidence only."""
import os, json, random
from common import *
import text_family


def m_docs():
    """two meanings: the rich document, and the same with a required query parameter added (breaking)"""
    m1 = text_family.base_spec()
    m2 = json.loads(json.dumps(m1))
    path = sorted(m2["paths"])[0]
    op = m2["paths"][path][sorted(k for k in m2["paths"][path] if k in ("get", "post", "put", "delete"))[0]]
    op.setdefault("parameters", []).append({"name": "frameMust", "in": "query", "type": "string", "required": True})
    return m1, m2


def frame_stage(run, n=None):
    """returns (violations for run.pid, coverage dict)"""
    vh = run.build_vh(); swagger = run.build_swagger()
    # the design of the frame: every reachable workspace of the small model satisfies the frame's invariants
    # (cached per content of the module and its config)
    mc = run.tlc("GoSwagger", "MCGoSwagger", workers=8, timeout=1800, cache=True)
    if not mc["ok"]:
        raise Infra("MCGoSwagger: the frame's design check failed: " + mc["out"][-2000:])
    n = n or (24 if run.tier == "quick" else 160)
    depth = 5 if run.tier == "quick" else 6
    g = run.tlc("GoSwagger", "GenGoSwagger", workers=1, timeout=900, simulate="num=%d" % n, depth=depth + 2,
                extra=["-seed", str(run.seed)], cfg_subst={"MaxSteps = 5": "MaxSteps = %d" % depth})
    allc = sorted({json.dumps(e, sort_keys=True) for t, e in g["emitted"] if t == "CASE"})
    random.Random(run.seed).shuffle(allc)
    cases = [json.loads(x) for x in allc[:n]]
    if len(cases) < n // 2:
        raise Infra("frame: too few histories generated: %d\n%s" % (len(cases), g["out"][-1500:]))
    m1, m2 = m_docs()
    p1, p2, pe = run.path("frame-m1.json"), run.path("frame-m2.json"), run.path("frame-empty.json")
    json.dump(m1, open(p1, "w")); json.dump(m2, open(p2, "w"))
    json.dump({"swagger": "2.0", "info": {"title": "empty", "version": "1"}, "paths": {}}, open(pe, "w"))
    mod = run.scratch_module("framemod", modname="scratch/frame")
    cpath = run.path("frame-cases.ndjson"); write_ndjson(cpath, cases)
    tpath = run.path("frame-trace.ndjson")
    os.makedirs(run.path("fw"), exist_ok=True)
    run.sh([vh, "frame-drive", "-cases", cpath, "-out", tpath, "-swagger", swagger, "-work", run.path("fw"), "-m1", p1, "-m2", p2, "-empty", pe,
            "-gomod", os.path.join(mod, "go.mod")], timeout=6000)
    trace = read_ndjson(tpath)
    slim = [{k: e[k] for k in e if k not in ("err", "out")} for e in trace]
    spath = run.path("frame-trace-slim.ndjson"); write_ndjson(spath, slim)
    r = run.tlc("TraceGoSwagger", "TraceGoSwagger", workers=1, timeout=1800, files={"trace.ndjson": spath}, allow_fail=True)
    if r["depth"] != len(trace) + 1 or not r["ok"]:
        raise Infra("frame trace not fully consumed: depth %d of %d lines\n%s" % (r["depth"], len(trace), r["out"][-3000:]))
    mine, notes, seen, first = [], {}, set(), set()
    for t, e in r["emitted"]:
        if t != "REJECT" or e["line"] in seen:
            continue
        seen.add(e["line"])
        ev = trace[e["line"] - 1]
        if ev["b"] in first:            # the model's state is no longer that of the workspace: later mismatches of this history are consequences
            continue
        first.add(ev["b"])
        if e["prop"] == run.pid:
            what = ev.get("cmd") or ev.get("kind") or ev["ev"]
            mine.append(dict(signature="frame: %s | %s" % (e["why"], what),
                             detail=dict(why=e["why"], event={k: ev[k] for k in ev if k != "docs"}, docs=ev.get("docs")),
                             history=cases[ev["b"]]["hist"][: ev["step"] + 1]))
        else:
            k = "%s: %s" % (e["prop"], e["why"]); notes[k] = notes.get(k, 0) + 1
    kinds = {}
    for e in trace:
        k = e["ev"] + ("/" + (e.get("cmd") or e.get("kind") or "") if e["ev"] in ("Transform", "Generate") else "")
        kinds[k] = kinds.get(k, 0) + 1
    cov = dict(frame_design_states=mc["states"], frame_histories=len(cases), frame_events=len(trace), frame_commands=kinds, frame_mismatches_of_other_rules=notes,
               frame_failed_commands=sum(1 for e in trace if e.get("exit", 0) != 0 and e["ev"] != "Diff"))
    return mine, cov
