"""Generated-server family.  C06: security requirements (Security.tla)."""
import os, json, shutil, base64, concurrent.futures
from common import *

ASSUME = [
    "go compiler, net/http/httptest and the pinned go-openapi runtime (router, security authenticators) are correct",
    "the driver's authenticators follow the documented contract: absent credential = not applicable, bad credential = error, good credential = principal",
]


def build_server(run, tag, spec_path, extra_flags=()):
    """Real `swagger generate server` into a scratch module + the generic reflection driver."""
    swagger = run.build_swagger()
    mod = run.scratch_module("srv-" + tag, modname="scratch/gen")
    g = run.sh([swagger, "generate", "server", "-f", spec_path, "-t", mod, "--name", "verif"] + list(extra_flags),
               cwd=mod, check=False, timeout=1800)
    if g.returncode != 0:
        return None, "generate: " + g.stderr[-2000:]
    os.makedirs(os.path.join(mod, "drv"), exist_ok=True)
    shutil.copy(os.path.join(HARNESS, "drivers", "serverdrv", "main.go.txt"), os.path.join(mod, "drv", "main.go"))
    out = run.path("bin", "serverdrv-" + tag)
    b = run.sh(["go", "build", "-o", out, "./drv"], cwd=mod, check=False, timeout=1800)
    if b.returncode != 0:
        return None, "build: " + b.stderr[-3000:]
    return out, ""


def run_driver(run, drv, requests, tag):
    rp = run.path("requests-%s.ndjson" % tag); write_ndjson(rp, requests)
    out = run.sh([drv, rp], timeout=1800)
    evs = [json.loads(l) for l in out.stdout.splitlines() if l.strip()]
    return evs[0], evs[1:]


def validate_trace(run, module, cfg, events):
    tpath = run.path("trace.ndjson"); write_ndjson(tpath, events)
    r = run.tlc(module, cfg, workers=1, timeout=3000, files={"trace.ndjson": tpath}, allow_fail=True)
    if r["depth"] != len(events) + 1 or not r["ok"]:
        raise Infra("trace not fully consumed: depth %d of %d lines\n%s" % (r["depth"], len(events), r["out"][-3000:]))
    rejects, seen = [], set()
    for t, e in r["emitted"]:
        if t == "REJECT" and e["line"] not in seen:
            seen.add(e["line"]); rejects.append(e)
    return rejects


def cred_wire(creds, deny):
    headers, query = {}, []
    c = creds.get("key", "absent")
    if c != "absent":
        headers["X-Key"] = ["good-key" if c == "valid" else "bad"]
    c = creds.get("qkey", "absent")
    if c != "absent":
        query.append("qkey=" + ("good-qkey" if c == "valid" else "bad"))
    c = creds.get("basic", "absent")
    if c != "absent":
        pw = "good-basic" if c == "valid" else "bad"
        headers["Authorization"] = ["Basic " + base64.b64encode(("user:" + pw).encode()).decode()]
    c = creds.get("oauth", "absent")
    if c != "absent":
        tok = {"valid": "good-oauth:read,write", "insufficient": "good-oauth:other", "invalid": "bad"}[c]
        query.append("access_token=" + tok)
    if deny:
        headers["X-Verif-Deny"] = ["1"]
    return headers, "&".join(query)


def check_c06(run):
    vh = run.build_vh()
    mc = run.tlc("Security", "MCSecurity", workers=8, timeout=900)
    if not mc["ok"]:
        raise Infra("Security design check failed: " + mc["out"][-2000:])
    # negative control of the design: with an authenticator missing from AuthenticatorsFor the
    # algorithm lets an AND alternative pass with one credential - TLC must find that counterexample
    neg = run.tlc("Security", "MCSecurityMissing", workers=4, timeout=900, allow_fail=True)
    if "OnlyIfSatisfied is violated" not in neg["out"]:
        raise Infra("negative control failed: missing authenticator did not violate OnlyIfSatisfied")
    gen = run.tlc("GenSecurity", "GenSecurity", workers=1, timeout=900)
    if not gen["ok"]:
        raise Infra("GenSecurity failed: " + gen["out"][-2000:])
    cases = [e for t, e in gen["emitted"] if t == "CASE"]
    byg = {}
    for c in cases:
        byg.setdefault(c["g"], []).append(c)
    globs = sorted(byg)
    if run.tier == "quick":
        pass  # all three globals; the operation shapes are the whole CanonReqs universe over 3 schemes

    def one(g):
        cs = byg[g]
        cp = run.path("sec-%s.ndjson" % g); write_ndjson(cp, cs)
        sp = run.path("sec-%s.json" % g)
        run.sh([vh, "sec-materialise", "-cases", cp, "-out", sp])
        drv, err = build_server(run, g, sp)
        if not drv:
            return g, [dict(ev="Server", g=g, ok=False, err=err[:800])], 0
        reqs, meta = [], []
        for i, c in enumerate(cs):
            for k, cr in enumerate(c["creds"]):
                for deny in ([False, True] if k % 3 == 0 else [False]):
                    h, q = cred_wire(cr, deny)
                    reqs.append(dict(id=len(reqs), method="GET", path="/op%d" % i, rawQuery=q, headers=h))
                    meta.append((c, cr, deny))
        start, resp = run_driver(run, drv, reqs, g)
        evs = [dict(ev="Server", g=g, ok=True, err="")]
        for r, (c, cr, deny) in zip(resp, meta):
            evs.append(dict(ev="Request", g=g, ghas=c["ghas"], galts=c["galts"], inherit=c["inherit"], own=c["own"],
                            creds=cr, deny=deny, status=r["status"], reached=r["reached"], principal=r["principal"],
                            panicked=r["panicked"], op=r["handler"]))
        return g, evs, len(reqs)

    with concurrent.futures.ThreadPoolExecutor(max_workers=3) as ex:
        results = list(ex.map(one, globs))
    events = [e for _, evs, _ in results for e in evs]
    rejects = validate_trace(run, "TraceSecurity", "TraceSecurity", events)
    for e in rejects:
        ev = events[e["line"] - 1]
        if ev["ev"] == "Server":
            run.violations.append(dict(signature="server for global requirement %s: %s" % (ev["g"], e["why"]), detail=ev)); continue
        sig = "%s | global=%s own=%s creds=%s deny=%s" % (e["why"], ev["g"], "inherit" if ev["inherit"] else json.dumps(ev["own"]),
                                                          json.dumps(ev["creds"], sort_keys=True), ev["deny"])
        run.violations.append(dict(signature=sig, detail=ev))
    nreq = sum(n for _, _, n in results)
    cov = dict(states=mc["states"] + gen["states"], transitions=mc["transitions"] + gen["transitions"],
               traces_validated_against_impl=nreq, evaluations=nreq,
               distinct_nontrivial=len({json.dumps([e["g"], e["inherit"], e["own"], e["creds"], e["deny"]], sort_keys=True) for e in events if e["ev"] == "Request"}),
               rule="every operation requirement shape (<= 2 alternatives of <= 2 of 3 schemes, anonymous, inherit, explicit []) under 3 global requirements x every credential-class assignment to the mentioned schemes (+ an unrequested credential), authorizer deny on every third",
               samples=[e for e in events if e["ev"] == "Request"][:2], servers=len(globs), operations=len(cases),
               negative_control="MCSecurityMissing violates OnlyIfSatisfied as required", rejected_events=len(rejects), exhaustive=True)
    return finish(run, "model_checking", cov, ASSUME)


def check(run, replay=None):
    return {"C06": check_c06}[run.pid](run)
