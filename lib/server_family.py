"""Generated-server family.  C06: security requirements (Security.tla)."""
import os, json, shutil, base64, concurrent.futures
from common import *

ASSUME = [
    "go compiler, net/http/httptest and the pinned go-openapi runtime (router, security authenticators) are correct",
    "the driver's authenticators follow the documented contract: absent credential = not applicable, bad credential = error, good credential = principal",
]


def build_server(run, tag, spec_path, extra_flags=(), client=False, first_spec=None):
    """Real `swagger generate server` into a scratch module + the generic reflection driver.
    first_spec: an earlier revision of the document, generated into the same target first."""
    swagger = run.build_swagger()
    mod = run.scratch_module("srv-" + tag, modname="scratch/gen")
    if first_spec:
        g = run.sh([swagger, "generate", "server", "-f", first_spec, "-t", mod, "--name", "verif"] + list(extra_flags),
                   cwd=mod, check=False, timeout=1800)
        if g.returncode != 0:
            return None, "generate (earlier revision): " + g.stderr[-2000:]
        # configure_<name>.go belongs to the user and is not rewritten; its handler signatures follow the security of
        # the revision it was written for: the user deletes it to get the one of the new revision
        cf = os.path.join(mod, "restapi", "configure_verif.go")
        if os.path.exists(cf):
            os.remove(cf)
    g = run.sh([swagger, "generate", "server", "-f", spec_path, "-t", mod, "--name", "verif"] + list(extra_flags),
               cwd=mod, check=False, timeout=1800)
    if g.returncode != 0:
        return None, "generate: " + g.stderr[-2000:]
    os.makedirs(os.path.join(mod, "drv"), exist_ok=True)
    shutil.copy(os.path.join(HARNESS, "drivers", "serverdrv", "main.go.txt"), os.path.join(mod, "drv", "main.go"))
    if client:
        g = run.sh([swagger, "generate", "client", "-f", spec_path, "-t", mod, "--name", "verif"], cwd=mod, check=False, timeout=1800)
        if g.returncode != 0:
            return None, "generate client: " + g.stderr[-2000:]
        shutil.copy(os.path.join(HARNESS, "drivers", "serverdrv", "client.go.txt"), os.path.join(mod, "drv", "client.go"))
        run.sh([run.build_vh(), "resp-registry", "-pkg", os.path.join(mod, "restapi", "operations"),
                "-import", "scratch/gen/restapi/operations", "-out", os.path.join(mod, "drv", "respregistry.go")])
    else:
        shutil.copy(os.path.join(HARNESS, "drivers", "serverdrv", "noclient.go.txt"), os.path.join(mod, "drv", "noclient.go"))
    out = run.path("bin", "serverdrv-" + tag)
    b = run.sh(["go", "build", "-o", out, "./drv"], cwd=mod, check=False, timeout=1800)
    if b.returncode != 0:
        return None, "build: " + b.stderr[-3000:]
    return out, ""


def run_driver(run, drv, requests, tag):
    rp = run.path("requests-%s.ndjson" % tag); write_ndjson(rp, requests)
    out = run.sh([drv, rp], timeout=1800)
    evs = [json.loads(l) for l in out.stdout.splitlines() if l.strip()]
    return evs[0], evs[1:]


def validate_trace(run, module, cfg, events):
    # a server that cannot be generated or built is a C01 matter; for the properties of this family it
    # means that nothing was explored: infrastructure failure (exit 2), never a violation
    bad = [e for e in events if e["ev"] == "Server" and not e["ok"]]
    if bad:
        raise Infra("generated server missing (generation or build failed): " + bad[0]["err"][-1500:])
    tpath = run.path("trace.ndjson"); write_ndjson(tpath, events)
    r = run.tlc(module, cfg, workers=1, timeout=3000, files={"trace.ndjson": tpath}, allow_fail=True)
    if r["depth"] != len(events) + 1 or not r["ok"]:
        raise Infra("trace not fully consumed: depth %d of %d lines\n%s" % (r["depth"], len(events), r["out"][-3000:]))
    rejects, seen = [], set()
    for t, e in r["emitted"]:
        if t == "REJECT" and e["line"] not in seen:
            seen.add(e["line"]); rejects.append(e)
    return rejects


def cred_wire(creds, deny):
    headers, query = {}, []
    c = creds.get("key", "absent")
    if c != "absent":
        headers["X-Key"] = ["good-key" if c == "valid" else "bad"]
    c = creds.get("qkey", "absent")
    if c != "absent":
        query.append("qkey=" + ("good-qkey" if c == "valid" else "bad"))
    c = creds.get("basic", "absent")
    if c != "absent":
        pw = "good-basic" if c == "valid" else "bad"
        headers["Authorization"] = ["Basic " + base64.b64encode(("user:" + pw).encode()).decode()]
    c = creds.get("oauth", "absent")
    if c != "absent":
        tok = {"valid": "good-oauth:read,write", "insufficient": "good-oauth:other", "invalid": "bad"}[c]
        query.append("access_token=" + tok)
    if deny:
        headers["X-Verif-Deny"] = ["1"]
    return headers, "&".join(query)


def check_c06(run):
    vh = run.build_vh()
    # thorough tier: a fourth scheme (an apiKey in the query) - alternatives of two out of four schemes,
    # requirements whose two alternatives are disjoint, credentials for all four at once
    four = run.tier != "quick"
    sub1 = {'CONSTANT Schemes = {"key", "basic", "oauth"}': 'CONSTANT Schemes = {"key", "basic", "oauth", "qkey"}'} if four else {}
    sub = dict(sub1, **{"SchemeSeq <- MCSchemeSeq": "SchemeSeq <- MCSchemeSeq4"}) if four else {}
    mc = run.tlc("Security", "MCSecurity", workers=8, timeout=1800, cfg_subst=sub1)
    if not mc["ok"]:
        raise Infra("Security design check failed: " + mc["out"][-2000:])
    # negative control of the design: with an authenticator missing from AuthenticatorsFor the
    # algorithm lets an AND alternative pass with one credential - TLC must find that counterexample
    neg = run.tlc("Security", "MCSecurityMissing", workers=4, timeout=900, allow_fail=True)   # three schemes suffice for the counterexample
    if "OnlyIfSatisfied is violated" not in neg["out"]:
        raise Infra("negative control failed: missing authenticator did not violate OnlyIfSatisfied")
    gen = run.tlc("GenSecurity", "GenSecurity", workers=1, timeout=900, cfg_subst=sub)
    if not gen["ok"]:
        raise Infra("GenSecurity failed: " + gen["out"][-2000:])
    cases = [e for t, e in gen["emitted"] if t == "CASE"]
    byg = {}
    for c in cases:
        byg.setdefault(c["g"], []).append(c)
    globs = sorted(byg)
    if run.tier == "quick":
        pass  # all three globals; the operation shapes are the whole CanonReqs universe over 3 schemes

    def one(g):
        cs = byg[g]
        # `sel`: the operations that inherit the document's requirement, lift it, or name only the scheme `key`
        # themselves - generating them alone must not lose the schemes only the inherited requirement names
        def names(own):
            return {s for alt in own for s in (alt if isinstance(alt, list) else [alt])}
        for c in cs:
            c["tag"] = "sel" if (c["inherit"] or names(c["own"]) <= {"key"}) else "other"
        cp = run.path("sec-%s.ndjson" % g); write_ndjson(cp, cs)
        sp = run.path("sec-%s.json" % g)
        run.sh([vh, "sec-materialise", "-cases", cp, "-out", sp])
        evs_all, n_all = [], 0
        # the whole document, and generation restricted to the operations tagged `sel` (Security!Selection)
        # the earlier revision for `regenerated`: the same operations, each with the requirement of its neighbour,
        # under another document-level requirement
        prev = [dict(c, inherit=d["inherit"], own=d["own"]) for c, d in zip(cs, cs[1:] + cs[:1])]
        og = byg[globs[(globs.index(g) + 1) % len(globs)]][0]
        prev = [dict(c, ghas=og["ghas"], galts=og["galts"]) for c in prev]
        pp = run.path("sec-%s-prev.ndjson" % g); write_ndjson(pp, prev)
        self_prev = run.path("sec-%s-prev.json" % g)
        run.sh([vh, "sec-materialise", "-cases", pp, "-out", self_prev])
        for variant, flags in (("all", []), ("tagged", ["--tags", "sel"]), ("autoconf", ["--implementation-package", "scratch/gen/impl"]),
                               ("regenerated", [])):
            e, n = one_variant(g, cs, sp, variant, flags, self_prev)
            evs_all += e; n_all += n
        return g, evs_all, n_all

    def build_autoconf(g, sp, flags):
        """generate server --implementation-package: the generated auto_configure file wires the authenticators
        and handlers of a backend package, written here from the interfaces that file declares"""
        swagger = run.build_swagger()
        tag = g + "-autoconf"
        mod = run.scratch_module("srv-" + tag, modname="scratch/gen")
        gen = run.sh([swagger, "generate", "server", "-f", sp, "-t", mod, "--name", "verif"] + flags, cwd=mod, check=False, timeout=1800)
        if gen.returncode != 0:
            return None, "generate: " + gen.stderr[-2000:]
        os.makedirs(os.path.join(mod, "impl"), exist_ok=True)
        run.sh([vh, "impl-gen", "-auto", os.path.join(mod, "restapi", "auto_configure_verif.go"), "-out", os.path.join(mod, "impl", "impl.go")])
        os.makedirs(os.path.join(mod, "drv"), exist_ok=True)
        shutil.copy(os.path.join(HARNESS, "drivers", "autodrv", "main.go.txt"), os.path.join(mod, "drv", "main.go"))
        out = run.path("bin", "autodrv-" + tag)
        b = run.sh(["go", "build", "-o", out, "./drv"], cwd=mod, check=False, timeout=1800)
        if b.returncode != 0:
            return None, "build: " + b.stderr[-3000:]
        return out, ""

    def one_variant(g, cs, sp, variant, flags, prev_spec):
        if variant == "autoconf":
            drv, err = build_autoconf(g, sp, flags)
        else:
            drv, err = build_server(run, g + "-" + variant, sp, extra_flags=flags, first_spec=prev_spec if variant == "regenerated" else None)
        if not drv:
            return [dict(ev="Server", g=g, ok=False, err=err[:800])], 0
        reqs, meta = [], []
        for i, c in enumerate(cs):
            if variant == "tagged" and c["tag"] != "sel":
                continue
            for k, cr in enumerate(c["creds"]):
                for deny in ([False, True] if k % 3 == 0 else [False]):
                    h, q = cred_wire(cr, deny)
                    # the otherwise valid request, and (every second) the same credentials on an invalid request
                    for valid, lim in ((True, "limit=2"), (False, "limit=0"), (False, ""))[: 3 if (k + i) % 2 == 0 else 1]:
                        reqs.append(dict(id=len(reqs), method="GET", path="/op%d" % i, rawQuery="&".join(x for x in (q, lim) if x), headers=h))
                        meta.append((c, cr, deny, valid))
        start, resp = run_driver(run, drv, reqs, g + "-" + variant)
        evs = [dict(ev="Server", g=g, ok=True, err="")]
        for r, (c, cr, deny, valid) in zip(resp, meta):
            evs.append(dict(ev="Request", g=g, ghas=c["ghas"], galts=c["galts"], inherit=c["inherit"], own=c["own"],
                            creds=cr, deny=deny, valid=valid, status=r["status"], reached=r["reached"], principal=r["principal"],
                            panicked=r["panicked"], op=r["handler"], selection=variant))
        return evs, len(reqs)

    with concurrent.futures.ThreadPoolExecutor(max_workers=3) as ex:
        results = list(ex.map(one, globs))
    events = [e for _, evs, _ in results for e in evs]
    rejects = validate_trace(run, "TraceSecurity", "TraceSecurity", events)
    for e in rejects:
        ev = events[e["line"] - 1]
        if ev["ev"] == "Server":
            run.violations.append(dict(signature="server for global requirement %s: %s" % (ev["g"], e["why"]), detail=ev)); continue
        sig = "%s | global=%s own=%s creds=%s deny=%s%s" % (e["why"], ev["g"], "inherit" if ev["inherit"] else json.dumps(ev["own"]),
                                                            json.dumps(ev["creds"], sort_keys=True), ev["deny"], ("" if ev["valid"] else " invalid-request") + ("" if ev["selection"] == "all" else " --" + ev["selection"]))
        run.violations.append(dict(signature=sig, detail=ev))
    nreq = sum(n for _, _, n in results)
    cov = dict(states=mc["states"] + gen["states"], transitions=mc["transitions"] + gen["transitions"],
               traces_validated_against_impl=nreq, evaluations=nreq,
               distinct_nontrivial=len({json.dumps([e["g"], e["inherit"], e["own"], e["creds"], e["deny"], e["valid"]], sort_keys=True) for e in events if e["ev"] == "Request"}),
               schemes=4 if four else 3,
               rule="every operation requirement shape (<= 2 alternatives of <= 2 of the schemes, anonymous, inherit, explicit []) under 3 global requirements x every credential-class assignment to the mentioned schemes (+ an unrequested credential), authorizer deny on every third",
               samples=[e for e in events if e["ev"] == "Request"][:2], servers=len(globs), operations=len(cases),
               negative_control="MCSecurityMissing violates OnlyIfSatisfied as required", rejected_events=len(rejects), exhaustive=True)
    return finish(run, "model_checking", cov, ASSUME)


def tok(t):
    return "\t" if t == "TAB" else t


def frag_wire(p, frag, opidx):
    """HTTP request for one parameter fragment (pure materialisation of the token sequences)."""
    import urllib.parse
    path = "/c03/op%d" % opidx
    vals = ["".join(tok(t) for t in occ) for occ in frag["vals"]] if frag["present"] else []
    rq = dict(method="POST", path=path, rawQuery="", headers={})
    loc = p["in"]
    if loc == "query":
        rq["rawQuery"] = "&".join("p=" + urllib.parse.quote(v, safe="") for v in vals)
    elif loc == "header":
        if vals:
            rq["headers"]["P"] = vals
    elif loc == "path":
        if not vals or vals[-1] == "":
            return None
        rq["path"] = path + "/" + urllib.parse.quote(vals[-1], safe="")
    elif loc == "formData":
        rq["headers"]["Content-Type"] = ["application/x-www-form-urlencoded"]
        rq["body"] = "&".join("p=" + urllib.parse.quote(v, safe="") for v in vals)
    return rq


def check_c03(run):
    vh = run.build_vh()
    deep = run.tier != "quick"
    gen = run.tlc("GenParams", "GenParams", workers=4, timeout=1800, cfg_subst={"Deep = FALSE": "Deep = TRUE"} if deep else None)
    if not gen["ok"]:
        raise Infra("GenParams failed: " + gen["out"][-2000:])
    cases = sorted((e for t, e in gen["emitted"] if t == "CASE"), key=lambda c: json.dumps(c["p"], sort_keys=True))
    gb = run.tlc("GenBodies", "GenBodies", workers=1, timeout=900)
    if not gb["ok"]:
        raise Infra("GenBodies failed: " + gb["out"][-2000:])
    bodies = sorted((e for t, e in gb["emitted"] if t == "CASE"), key=lambda c: c["body"])
    cases = cases + bodies
    nsh = 4
    shards = [cases[i::nsh] for i in range(nsh)]

    def one(k):
        cs = shards[k]
        cp = run.path("params-%d.ndjson" % k)
        write_ndjson(cp, [dict(p=c["p"]) if "p" in c else dict(body=c["body"], schema=c["schema"]) for c in cs])
        sp = run.path("params-%d.json" % k)
        run.sh([vh, "param-materialise", "-cases", cp, "-out", sp])
        drv, err = build_server(run, "p%d" % k, sp)
        if not drv:
            return [dict(ev="Server", ok=False, err=err[:1500], shard=k)], 0
        reqs, meta = [], []
        for i, c in enumerate(cs):
            if "body" in c:
                for d in c["instances"]:
                    reqs.append(dict(id=len(reqs), method="POST", path="/c03/op%d" % i, rawQuery="",
                                     headers={"Content-Type": ["application/json"]}, taggedBody=d))
                    meta.append(("body", c["body"], d))
                reqs.append(dict(id=len(reqs), method="POST", path="/c03/op%d" % i, rawQuery="", headers={"Content-Type": ["application/json"]}))
                meta.append(("nobody", c["body"], None))
                continue
            for f in c["frags"]:
                rq = frag_wire(c["p"], f, i)
                if rq is None:
                    continue
                rq["id"] = len(reqs)
                reqs.append(rq); meta.append((c["p"], f))
        start, resp = run_driver(run, drv, reqs, "p%d" % k)
        evs = [dict(ev="Server", ok=True, err="", shard=k)]
        for r, m in zip(resp, meta):
            if m[0] == "body":
                evs.append({"ev": "Body", "def": m[1], "doc": m[2], "status": r["status"], "reached": r["reached"],
                            "params": r["params"], "panicked": r["panicked"], "body": r["respBody"][:200]})
                continue
            if m[0] == "nobody":
                evs.append({"ev": "NoBody", "def": m[1], "status": r["status"], "reached": r["reached"], "panicked": r["panicked"]})
                continue
            p, f = m
            evs.append(dict(ev="Bound", p=p, raw=f, status=r["status"], reached=r["reached"], params=r["params"],
                            panicked=r["panicked"], body=r["respBody"][:200]))
        return evs, len(reqs)

    with concurrent.futures.ThreadPoolExecutor(max_workers=nsh) as ex:
        results = list(ex.map(one, range(nsh)))
    events = [e for evs, _ in results for e in evs]
    rejects = validate_trace(run, "TraceParams", "TraceParams", events)
    for e in rejects:
        ev = events[e["line"] - 1]
        if ev["ev"] == "Server":
            run.violations.append(dict(signature="server shard %d: %s" % (ev["shard"], e["why"]), detail=ev)); continue
        if ev["ev"] in ("Body", "NoBody"):
            run.violations.append(dict(signature="%s | body %s" % (e["why"], ev["def"]),
                                       detail=dict(why=e["why"], definition=ev["def"], doc=ev.get("doc"), status=ev["status"],
                                                   reached=ev["reached"], params=ev.get("params"), body=ev.get("body"), valid=e.get("expected"))))
            continue
        p = ev["p"]
        kind = p["type"] + ("/" + p["format"] if "format" in p else "")
        if p["type"] == "array":
            it = p["items"]
            kind = "array[%s]" % ("array[%s]" % it["items"]["type"] if it["type"] == "array" else it["type"]) + ":" + p.get("cf", "none")
        flags = "".join(k for k in ("required", "allowEmpty") if p.get(k)) + ("+default" if "default" in p else "")
        sig = "%s | %s %s %s raw=%s" % (e["why"], p["in"], kind, flags, json.dumps(ev["raw"]["vals"]) if ev["raw"]["present"] else "absent")
        isbool = p["type"] == "boolean" or (p["type"] == "array" and (p["items"]["type"] == "boolean" or
                                                                      (p["items"]["type"] == "array" and p["items"]["items"]["type"] == "boolean")))
        if isbool and e["why"].startswith("the handler runs"):
            # one defect, one call site (the converter chosen for booleans never fails): keyed by location and kind
            sig = "boolean parameter accepts a token that is not a boolean | %s %s" % (p["in"], kind)
        run.violations.append(dict(signature=sig, detail=dict(why=e["why"], p=p, raw=ev["raw"], status=ev["status"], reached=ev["reached"],
                                                              params=ev["params"], expected=e.get("expected"), body=ev["body"])))
    nreq = sum(n for _, n in results)
    cov = dict(states=gen["states"], transitions=gen["transitions"], traces_validated_against_impl=nreq, evaluations=nreq,
               distinct_nontrivial=len({json.dumps([e.get("p"), e.get("raw"), e.get("def"), e.get("doc")], sort_keys=True) for e in events if e["ev"] != "Server"}),
               rule="every parameter descriptor of ParamCases (location x kind x required/allowEmptyValue/default, arrays x collectionFormat, nested arrays) x every raw fragment of Frags(p)",
               samples=[dict(p=e["p"], raw=e["raw"], status=e["status"], reached=e["reached"]) for e in events if e["ev"] == "Bound"][:2],
               operations=len(cases), servers=nsh, rejected_events=len(rejects), exhaustive=True)
    return finish(run, "model_checking", cov, ASSUME + ["bounded universe of parameter descriptors and token sequences; lexeme tables of SimpleParam (strconv/strfmt facts)"])


def check_c04(run):
    vh = run.build_vh()
    gen = run.tlc("GenC04", "GenC04", workers=4, timeout=900)
    if not gen["ok"]:
        raise Infra("GenC04 failed (includes the design theorem Lossless): " + gen["out"][-2000:])
    cases = [e for t, e in gen["emitted"] if t == "CASE"]
    params = sorted((c for c in cases if c["k"] == "param"), key=lambda c: json.dumps(c["p"], sort_keys=True))
    resps = sorted((c for c in cases if c["k"] == "resp"), key=lambda c: c["L"])
    nsh = 4
    shards = [params[i::nsh] for i in range(nsh)]

    def one(k):
        cs = shards[k]
        rows = [dict(p=c["p"]) for c in cs]
        if k == 0:
            rows += [dict(resp=c["L"], responses=c["responses"]) for c in resps]
        cp = run.path("c04-%d.ndjson" % k); write_ndjson(cp, rows)
        sp = run.path("c04-%d.json" % k)
        # where the media type of form parameters is declared (Request!MediaDecl): odd shards inherit it from the document
        run.sh([vh, "param-materialise", "-cases", cp, "-out", sp, "-media", "document" if k % 2 else "operation"])
        drv, err = build_server(run, "c%d" % k, sp, client=True)
        if not drv:
            return [dict(ev="Server", ok=False, err=err[:1500], shard=k)], 0
        calls, meta = [], []
        for i, c in enumerate(cs):
            for v in c["vals"]:
                calls.append(dict(id=len(calls), op="op%d" % i, set={"p": v})); meta.append(("param", c["p"], v))
            if not c["p"]["required"]:
                calls.append(dict(id=len(calls), op="op%d" % i, set={})); meta.append(("param", c["p"], None))
        if k == 0:
            for c in resps:
                for code in c["codes"]:
                    sc = c["scripts"][str(code)] if isinstance(c["scripts"], dict) else None
                    script = dict(code=code, typed=True)
                    if sc["payload"] != ["null"]:
                        script["payload"] = sc["payload"]
                    hd = sc["headers"] if isinstance(sc["headers"], dict) else {}
                    names = {"xint": "X-Int", "xcsv": "X-Csv", "xdate": "X-Date"}
                    if hd:
                        script["headers"] = {names[h]: v for h, v in hd.items()}
                    calls.append(dict(id=len(calls), op=c["L"], set={}, script=script)); meta.append(("resp", c["L"], code))
        cpath = run.path("calls-%d.ndjson" % k); write_ndjson(cpath, calls)
        out = run.sh([drv, "client", cpath], timeout=1800)
        evs = [json.loads(l) for l in out.stdout.splitlines() if l.strip()][1:]
        res = [dict(ev="Server", ok=True, err="", shard=k)]
        for r, m in zip(evs, meta):
            base = dict(clientPanic=r.get("clientPanic", False), noMethod=r.get("noMethod", False), reached=r.get("reached", False),
                        received=r.get("received", ["obj", {}]), errText=r.get("errText", "") + r.get("panicText", "") + r.get("setErr", ""))
            if m[0] == "param":
                res.append(dict(ev="ParamCall", p=m[1], hasValue=m[2] is not None, sent=m[2] if m[2] is not None else ["null"],
                                kind=r.get("kind", "none"), **base))
            else:
                result = r.get("result", dict(type="none", code=-1, generic=False, hasPayload=False, headers={}))
                if "payload" not in result:
                    result["payload"] = ["null"]
                res.append(dict(ev="RespCall", L=m[1], code=m[2], kind=r.get("kind", "none"), result=result,
                                usedTyped=r.get("usedTyped", False), **base))
        return res, len(calls)

    with concurrent.futures.ThreadPoolExecutor(max_workers=nsh) as ex:
        results = list(ex.map(one, range(nsh)))
    events = [e for evs, _ in results for e in evs]
    rejects = validate_trace(run, "TraceC04", "TraceC04", events)
    for e in rejects:
        ev = events[e["line"] - 1]
        if ev["ev"] == "ParamCall":
            p = ev["p"]
            kind = p["type"] + ("/" + p["format"] if "format" in p else "")
            if p["type"] == "array":
                it = p["items"]
                kind = "array[%s]" % ("array" if it["type"] == "array" else it["type"]) + ":" + p.get("cf", "none")
            flags = "".join(k for k in ("required", "allowEmpty") if p.get(k)) + ("+default" if "default" in p else "")
            sig = "%s | %s %s %s sent=%s" % (e["why"], p["in"], kind, flags, json.dumps(ev["sent"]) if ev["hasValue"] else "nothing")
        else:
            sig = "%s | layout %s code %d" % (e["why"], ev["L"], ev["code"])
        run.violations.append(dict(signature=sig, detail=ev))
    ncall = sum(n for _, n in results)
    cov = dict(states=gen["states"], transitions=gen["transitions"], traces_validated_against_impl=ncall, evaluations=ncall,
               distinct_nontrivial=len({json.dumps(e, sort_keys=True) for e in events if e["ev"] != "Server"}),
               rule="every parameter descriptor of ParamCases x every value Bind can produce (+ nothing for optional ones); 4 response layouts x declared, default-range and undeclared status codes with typed generated responders",
               samples=[e for e in events if e["ev"] == "RespCall"][:1] + [dict(p=e["p"], sent=e["sent"]) for e in events if e["ev"] == "ParamCall"][:1],
               design_theorem="Lossless (Bind(p, Wire(p, v)).val = v for every sendable value) checked by TLC on the whole universe",
               operations=len(params) + len(resps), rejected_events=len(rejects), exhaustive=True)
    return finish(run, "model_checking", cov, ASSUME + ["client and server run in one process over loopback HTTP (net/http/httptest)"])


def check(run, replay=None):
    return {"C06": check_c06, "C03": check_c03, "C04": check_c04}[run.pid](run)
