"""C07: every command's output depends only on its inputs.  Determinism.tla (map-order and
shared-state design model, with negative configs) is model-checked; the real commands are run
in-process repeatedly into one target path, in new processes, and concurrently under the race
detector; TLC validates that out[job, target] is single-valued."""
import os, json, shutil, re
from common import *

ASSUME = [
    "Go's per-range randomisation of map iteration is the source of order nondeterminism: explored by repetition, not controlled; with k entries at a site and N repetitions the chance of never seeing a second order is about (1/k)^(N-1) for k <= 8",
    "the race detector (go build -race) observes the interleavings that happen to occur",
]


def wide_spec():
    """many entries at every map-ranged site: tags, schemes, media types, definitions, responses,
    parameters whose names differ by case, several schemes inside one AND requirement"""
    tags = ["alpha", "beta", "gamma", "delta", "epsilon", "zeta", "eta"]
    schemes = {("key%d" % i): {"type": "apiKey", "in": "header", "name": "X-Key-%d" % i} for i in range(6)}
    schemes["basic"] = {"type": "basic"}
    schemes["oauth"] = {"type": "oauth2", "flow": "accessCode", "authorizationUrl": "https://example.com/a", "tokenUrl": "https://example.com/t",
                        "scopes": {("scope%d" % i): ("description %d" % i) for i in range(7)}}
    defs = {("def%d" % i): {"type": "object", "properties": {("p%d" % j): ({"type": "string", "x-order": 6 - j} if i % 2 else {"type": "string"}) for j in range(7)}, "x-ext-%d" % i: "v"} for i in range(8)}
    # names whose file name depends on the language options of the generation (a Go file must not end in _test / _linux)
    defs["record_test"] = {"type": "object", "properties": {"n": {"type": "integer"}}}
    defs["arch_linux"] = {"type": "object", "properties": {"s": {"type": "string"}}}
    paths = {}
    for i, t in enumerate(tags):
        paths["/%s/{id}" % t] = {"post": {
            "operationId": "op" + t.capitalize(), "tags": [t, tags[(i + 1) % len(tags)]],
            "consumes": ["application/json", "application/xml", "text/plain", "application/x-yaml", "application/vnd.api+json", "text/x-csv"],
            "produces": ["application/json", "application/xml", "text/plain", "text/csv", "application/hal+json;charset=utf-8", "application/problem+xml"],
            "security": [{"key0": [], "key1": [], "key2": [], "key3": [], "basic": []}, {"key4": []}, {"key5": []},
                         {"oauth": ["scope0", "scope1", "scope2", "scope3", "scope4"]}],
            "parameters": [
                {"name": "id", "in": "path", "required": True, "type": "string"},
                {"name": "q", "in": "query", "type": "string"}, {"name": "Q", "in": "header", "type": "string"},
                {"name": "limit", "in": "query", "type": "integer"}, {"name": "Limit", "in": "header", "type": "integer"},
                {"name": "x-a", "in": "header", "type": "string"}, {"name": "x_b", "in": "query", "type": "string"},
                {"name": "dup", "in": "query", "type": "string"}, {"name": "dup", "in": "header", "type": "integer"},
                {"name": "body", "in": "body", "schema": {"$ref": "#/definitions/def%d" % i}}],
            "responses": {str(c): {"description": "r%d" % c, "schema": {"$ref": "#/definitions/def%d" % ((i + c) % 8)},
                                   "headers": {("X-H%d" % h): {"type": "string"} for h in range(6)}} for c in (200, 201, 400, 404, 409, 500)}}}
    return {"swagger": "2.0", "info": {"title": "wide", "version": "1"}, "schemes": ["http", "https", "ws", "wss"],
            "consumes": ["application/json"], "produces": ["application/json"], "securityDefinitions": schemes,
            "tags": [{"name": t, "description": "tag " + t} for t in tags], "paths": paths, "definitions": defs}


def media_spec():
    """every media type family the generator knows a serializer name for, and media types matched by more
    than one of its patterns, as consumes / produces of several operations and of the document"""
    menu = ["application/json", "application/x-yaml", "application/xml", "text/xml", "text/plain", "text/html", "text/csv", "text/markdown",
            "application/octet-stream", "application/x-tar", "application/gzip", "application/x-gzip", "application/x-tar+gzip", "application/zip",
            "application/vnd.xml+json", "application/vnd.api+json", "application/x-protobuf", "application/pdf", "image/png", "audio/mpeg",
            "application/javascript", "text/javascript", "application/x-thrift", "application/vnd.yaml+json", "text/x-markdown+html"]
    paths = {}
    for i in range(6):
        cons = [menu[(i * 4 + k) % len(menu)] for k in range(6)]
        prod = [menu[(i * 5 + k + 3) % len(menu)] for k in range(6)]
        paths["/m%d" % i] = {"post": {"operationId": "media%d" % i, "consumes": cons, "produces": prod,
                                      "parameters": [{"name": "body", "in": "body", "schema": {"type": "string", "format": "binary"}}],
                                      "responses": {"200": {"description": "ok", "schema": {"type": "string", "format": "binary"}}}}}
    return {"swagger": "2.0", "info": {"title": "media", "version": "1"}, "consumes": menu[:8], "produces": menu[8:16], "paths": paths}


def ties_spec():
    """properties that share an x-order value (ties), next to distinct and absent x-order"""
    props = lambda ks: {k: dict({"type": "string"}, **({"x-order": o} if o is not None else {})) for k, o in ks}
    defs = {"tied": {"type": "object", "properties": props([("zeta", 1), ("alpha", 1), ("mid", 1), ("beta", 0), ("omega", 2), ("gamma", 2), ("free", None), ("bound", None)])},
            "allTied": {"type": "object", "properties": props([(chr(ord("a") + i) * 2, 5) for i in range(9)])}}
    return {"swagger": "2.0", "info": {"title": "ties", "version": "1"}, "consumes": ["application/json"], "produces": ["application/json"],
            "paths": {"/t": {"get": {"operationId": "getTied", "responses": {"200": {"description": "ok", "schema": {"$ref": "#/definitions/tied"}},
                                                                             "default": {"description": "err", "schema": {"$ref": "#/definitions/allTied"}}}}}},
            "definitions": defs}


def unreferenced_pair():
    """two documents whose differences sit in definitions no endpoint uses, one of which refers to the
    other, plus a parameter enum that loses and gains several values"""
    def doc(v2):
        item = {"type": "object", "required": ["code"] + (["weight"] if v2 else []),
                "properties": {"code": {"type": "string", "maxLength": 4 if v2 else 8}, "weight": {"type": "number"}}}
        if v2:
            item["properties"]["extra"] = {"type": "string"}
        defs = {"Item": item, "Holder": {"type": "object", "properties": {"item": {"$ref": "#/definitions/Item"}, "items": {"type": "array", "items": {"$ref": "#/definitions/Item"}}}},
                "Outer": {"type": "object", "properties": {"holder": {"$ref": "#/definitions/Holder"}}}}
        for i in range(4):
            defs["Filler%d" % i] = {"type": "object", "properties": {"f": {"type": "integer", "maximum": 5 if v2 else 9}}}
        enum = ["a", "b", "c", "d", "e"] if not v2 else ["a", "x", "y", "z"]
        return {"swagger": "2.0", "info": {"title": "unref", "version": "1"}, "consumes": ["application/json"], "produces": ["application/json"],
                "paths": {"/p": {"get": {"operationId": "getP", "parameters": [{"name": "kind", "in": "query", "type": "string", "enum": enum}],
                                         "responses": {"200": {"description": "ok"}}}}}, "definitions": defs}
    return doc(False), doc(True)


def check(run, replay=None):
    quick = run.tier == "quick"
    mc = run.tlc("Determinism", "MCDeterminism", workers=4, timeout=600)
    if not mc["ok"]:
        raise Infra("Determinism design check failed: " + mc["out"][-1500:])
    for neg in ("MCDeterminismUnsorted", "MCDeterminismShared"):
        r = run.tlc("Determinism", neg, workers=4, timeout=600, allow_fail=True)
        if "OutputIsFunctionOfInput is violated" not in r["out"]:
            raise Infra("negative control %s did not violate OutputIsFunctionOfInput" % neg)
    vh = run.build_vh(); vhr = run.build_vh(race=True); swagger = run.build_swagger()
    work = run.scratch_module("det", modname="scratch/gen")
    wide = os.path.join(work, "wide.json"); json.dump(wide_spec(), open(wide, "w"))
    fx = os.path.join(REPO, "fixtures")
    todo = os.path.join(fx, "codegen", "todolist.allparams.yml")
    gens = []
    media = os.path.join(work, "media.json"); json.dump(media_spec(), open(media, "w"))
    # free text with characters the templates escape (*/, back-quote, quotes, <&>): which escaper a text goes
    # through must not vary between runs either
    import text_family
    special = json.loads(json.dumps(text_family.base_spec()).replace(text_family.NEUTRAL, "every */5 minutes `x` 'q' <&> %d{{ . }}"))
    texts = os.path.join(work, "texts.json"); json.dump(special, open(texts, "w"))
    ties = os.path.join(work, "ties.json"); json.dump(ties_spec(), open(ties, "w"))
    for name, spec in (("wide", wide), ("todolist", todo), ("media", media), ("ties", ties), ("texts", texts)):
        for cmd in ("server", "client", "cli"):
            gens.append(dict(id="generate %s %s" % (cmd, name), args=["generate", cmd, "-f", spec, "-t", "{T}", "--name", "verif"], output="{T}", lib=cmd, spec=spec))
        gens.append(dict(id="generate model %s" % name, args=["generate", "model", "-f", spec, "-t", "{T}"], output="{T}", lib="model", spec=spec))
        gens.append(dict(id="generate markdown %s" % name, args=["generate", "markdown", "-f", spec, "-t", "{T}", "--output", "doc.md"], output="{T}", lib="markdown", spec=spec))
    # a generation with a user template directory that overrides a shared sub-template (header): what it loads must
    # stay with it - the stock generations that follow in the same process render the stock template
    td = os.path.join(work, "tpl"); os.makedirs(td, exist_ok=True)
    stock = open(os.path.join(REPO, "generator", "templates", "header.gotmpl")).read().split("\n")
    open(os.path.join(td, "header.gotmpl"), "w").write("\n".join(stock[:1] + ["", "// Licensed to ACME Corp (custom header template)"] + stock[1:]))
    gens.append(dict(id="generate model wide custom-header", args=["generate", "model", "-f", wide, "-t", "{T}", "--template-dir", td, "--allow-template-override"], output="{T}"))
    gens.append(dict(id="generate server ties keep-spec-order", args=["generate", "server", "-f", ties, "-t", "{T}", "--name", "verif", "--keep-spec-order"], output="{T}"))
    others = [
        dict(id="flatten wide", args=["flatten", wide, "-o", "{T}/out.json"], output="{T}/out.json"),
        dict(id="flatten wide yaml", args=["flatten", wide, "-o", "{T}/out.yml", "--format", "yaml"], output="{T}/out.yml"),
        dict(id="expand wide", args=["expand", wide, "-o", "{T}/out.json"], output="{T}/out.json"),
        dict(id="mixin wide+todolist", args=["mixin", wide, todo, "-o", "{T}/out.json"], output="{T}/out.json", errOK=True),
        dict(id="generate spec petstore", args=["generate", "spec", "-w", os.path.join(fx, "goparsing", "petstore"), "-o", "{T}/spec.json"], output="{T}/spec.json"),
        dict(id="generate spec classification", args=["generate", "spec", "-w", os.path.join(fx, "goparsing", "classification"), "-m", "-o", "{T}/spec.json"], output="{T}/spec.json"),
    ]
    u1, u2 = unreferenced_pair()
    ua, ub = os.path.join(work, "unref.v1.json"), os.path.join(work, "unref.v2.json")
    json.dump(u1, open(ua, "w")); json.dump(u2, open(ub, "w"))
    others.append(dict(id="diff unreferenced txt", args=["diff", ua, ub, "-d", "{T}/report.txt"], output="{T}/report.txt", errOK=True))
    others.append(dict(id="diff unreferenced json", args=["diff", "-f", "json", ua, ub, "-d", "{T}/report.json"], output="{T}/report.json", errOK=True))
    others.append(dict(id="diff unreferenced reverse", args=["diff", ub, ua, "-d", "{T}/report.txt"], output="{T}/report.txt", errOK=True))
    for pair in ("kitchensink", "enum", "uber", "param"):
        a, b = os.path.join(fx, "diff", pair + ".v1.json"), os.path.join(fx, "diff", pair + ".v2.json")
        others.append(dict(id="diff %s txt" % pair, args=["diff", a, b, "-d", "{T}/report.txt"], output="{T}/report.txt", errOK=True))
        others.append(dict(id="diff %s json" % pair, args=["diff", "-f", "json", a, b, "-d", "{T}/report.json"], output="{T}/report.json", errOK=True))
    nseq = 8 if quick else 40
    conc = 4 if quick else 8
    if quick:
        gens = [g for g in gens if "wide" in g["id"] or "server" in g["id"] or g["id"] in ("generate client media", "generate model ties", "generate markdown ties", "generate server ties keep-spec-order", "generate model texts", "generate client texts")]
        others = [o for o in others if "classification" not in o["id"]]
    import concurrent.futures
    # the sequential repetitions of different jobs are independent: one driver process per group of jobs
    # every driver process starts with a generation under OTHER language options (markdown): what a generation
    # writes must not depend on what the process generated before
    gens = sorted(gens, key=lambda g: 0 if "markdown" in g["id"] else (1 if "custom-header" in g["id"] else 2))
    groups = [gens[0::2], gens[1::2], others[0::2], others[1::2]]
    jobdir = {}

    def seq(k):
        jp = run.path("jobs-%d.ndjson" % k); write_ndjson(jp, groups[k])
        wk = run.scratch_module("det%d" % k, modname="scratch/gen")
        tk = run.path("trace-seq-%d.ndjson" % k)
        run.sh([vh, "det-run", "-jobs", jp, "-work", wk, "-out", tk, "-n", str(nseq)], cwd=wk, timeout=6000)
        for j in groups[k]:
            jobdir[j["id"]] = wk
        return read_ndjson(tk)

    with concurrent.futures.ThreadPoolExecutor(max_workers=4) as ex:
        events = [e for evs in ex.map(seq, range(4)) for e in evs]
    # fresh processes (the CLI binary itself), same target path
    nproc = 2 if quick else 5
    for e in events:
        e["target"] = "cli-t0"          # in-process runs through the CLI command objects, target t0
    for j in (gens if quick else gens[:12]) + others[:2] + others[-2:]:
        for k in range(nproc):
            # same module directory, same target path and same working directory as the in-process runs
            t0 = os.path.join(jobdir[j["id"]], "t0")
            shutil.rmtree(t0, ignore_errors=True); os.makedirs(t0)
            g = run.sh([swagger] + [a.replace("{T}", t0) for a in j["args"]], cwd=jobdir[j["id"]], check=False, timeout=900)
            d = json.loads(run.sh([vh, "digest", j["output"].replace("{T}", t0)]).stdout)
            events.append(dict(ev="Run", job=j["id"], mode="proc", rep=k, target="cli-t0", exit=0 if (g.returncode == 0 or j.get("errOK")) else 1,
                               digest=d["digest"], files=d["files"]))
    # concurrent generations under the race detector
    racejobs = [g for g in gens if g["id"] in ("generate server wide", "generate client wide", "generate markdown wide")] if quick else [g for g in gens if "lib" in g]
    jg = run.path("jobs-gen.ndjson"); write_ndjson(jg, racejobs)
    t2 = run.path("trace-conc.ndjson")
    env = dict(GOENV, GORACE="halt_on_error=0 exitcode=0")
    p = run.sh([vhr, "det-run", "-jobs", jg, "-work", work, "-out", t2, "-n", "1" if quick else "2", "-conc", str(3 if quick else conc), "-lib"], cwd=work, env=env, timeout=6000, check=False)
    races = len(re.findall(r"WARNING: DATA RACE", p.stderr))
    if not os.path.exists(t2):
        raise Infra("race run failed: " + p.stderr[-1500:])
    for e in read_ndjson(t2):
        e["target"] = "lib-" + e["target"]      # library API path: its own outputs, compared among themselves
        events.append(e)
    events.append(dict(ev="Race", reports=races, first=p.stderr[p.stderr.find("WARNING: DATA RACE"):][:1500] if races else ""))
    slim = [{k: e[k] for k in e if k not in ("files", "first", "err")} for e in events]
    tpath = run.path("trace.ndjson"); write_ndjson(tpath, slim)
    r = run.tlc("TraceDeterminism", "TraceDeterminism", workers=1, timeout=3000, files={"trace.ndjson": tpath}, allow_fail=True)
    if r["depth"] != len(events) + 1 or not r["ok"]:
        raise Infra("trace not fully consumed: depth %d of %d lines\n%s" % (r["depth"], len(events), r["out"][-3000:]))
    first = {}
    for e in events:
        if e["ev"] == "Run":
            first.setdefault((e["job"], e["target"]), e)
    seen = set()
    for t, e in r["emitted"]:
        if t == "REJECT" and e["line"] not in seen:
            seen.add(e["line"])
            ev = events[e["line"] - 1]
            if ev["ev"] == "Race":
                # the racing functions identify the finding
                fn = sorted(set(re.findall(r"generator\.[\w\.\(\)\*]+|commands[\w/\.]*\.[\w\.\(\)\*]+", ev["first"])))[:4]
                run.violations.append(dict(signature="data race: " + ",".join(fn), detail=ev)); continue
            ref = first[(ev["job"], ev["target"])]
            diff = sorted(k for k in set(ev["files"]) | set(ref["files"]) if ev["files"].get(k) != ref["files"].get(k))
            # the files that differ vary from run to run: the signature keeps their kinds only
            kinds = sorted({re.sub(r"^.*_(parameters|responses|urlbuilder|client)\.go$", r"*_\1.go", os.path.basename(k)) for k in diff})
            run.violations.append(dict(signature="output is not a function of the input | %s -> %s" % (ev["job"], ",".join(kinds[:4])),
                                       detail=dict(job=ev["job"], mode=ev["mode"], differing_files=diff[:10], exit=ev["exit"], ref_exit=ref["exit"])))
    nrun = sum(1 for e in events if e["ev"] == "Run")
    cov = dict(states=mc["states"], transitions=mc["transitions"], traces_validated_against_impl=nrun, evaluations=nrun,
               distinct_nontrivial=len(first), jobs=len(gens) + len(others), sequential_repetitions=nseq, fresh_processes=nproc,
               concurrent_instances=conc, race_reports=races,
               rule="each job (command x input) run N times in-process into one target path, in new processes, and M-way concurrently under -race; distinct = (job, target) pairs",
               samples=[dict(job=e["job"], mode=e["mode"], digest=e["digest"]) for e in events[:3]],
               negative_controls="MCDeterminismUnsorted and MCDeterminismShared violate OutputIsFunctionOfInput as required", rejected_events=len(seen))
    return finish(run, "model_checking", cov, ASSUME)
