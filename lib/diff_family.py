"""C12-C15: swagger diff.  TLC generates the (old,new) document pairs (GenDiff), the Go harness runs
the real diff.Compare and the real CLI and records events, TLC validates the trace (TraceDiff)."""
import json, os, glob, random
from common import *

ASSUME = [
    "TLC/SANY and the CommunityModules Json module are correct",
    "go-openapi loads/spec/validate (pinned dependencies) load the materialised documents faithfully",
    "the materialiser (harness/cmd/vh/aos.go) translates abstract documents 1:1 into Swagger JSON",
    "bounded universe: 15 leaf descriptors x 47 elementary edits x 10 locations x 2 directions + structural edits; numbers in a small interval, strings from a 10-element universe",
]


def gen_cases(run, pairs=True):
    cfg = "GenDiff"
    r = run.tlc("GenDiff", cfg, workers=1, timeout=900, extra=["-seed", str(run.seed)],
                cfg_subst={"WithPairs = TRUE": "WithPairs = %s" % ("TRUE" if pairs else "FALSE")})
    if not r["ok"]:
        raise Infra("GenDiff model check failed: %s" % r["out"][-2000:])
    cases = [e for t, e in r["emitted"] if t == "CASE"]
    return cases, r


def validate(run, prop, trace_path, ntrace):
    r = run.tlc("TraceDiff", "TraceDiff_" + prop, workers=1, timeout=1800, files={"trace.ndjson": trace_path},
                allow_fail=True)
    if r["depth"] != ntrace + 1 or not r["ok"]:
        raise Infra("trace not fully consumed: depth %d of %d lines\n%s" % (r["depth"], ntrace, r["out"][-3000:]))
    rejects = [e for t, e in r["emitted"] if t == "REJECT"]
    seen, out = set(), []
    for e in rejects:
        if e["line"] not in seen:
            seen.add(e["line"]); out.append(e)
    return out, r


def check(run, replay=None):
    prop = run.pid
    vh = run.build_vh()
    swagger = run.build_swagger()
    # design-level model checking of the pipeline machine (C15 invariants) - cheap, always run
    mc = run.tlc("MCDiffPipeline", "MCDiffPipeline", workers=4, timeout=600)
    if not mc["ok"]:
        raise Infra("pipeline design check failed: " + mc["out"][-2000:])
    if prop == "C12":
        return check_c12(run, vh, swagger, mc)
    cases, gen = gen_cases(run)
    rnd = random.Random(run.seed)
    if run.tier == "quick" and prop in ("C15",):
        # process spawns dominate C15: a seeded sample of the pairs, every kind represented
        bykind = {}
        for c in cases:
            # descriptive edits each have their own compatibility class (NonBreaking / Warning): all of them
            bykind.setdefault((c["c"]["kind"], c["c"]["loc"], c["c"]["edit"] if c["c"]["kind"] == "meta" else ""), []).append(c)
        pick = []
        for k in sorted(bykind):
            pick += rnd.sample(bykind[k], min(3, len(bykind[k])))
        cases = pick
    cpath = run.path("cases.ndjson")
    write_ndjson(cpath, cases)
    tpath = run.path("trace.ndjson")
    mode = {"C13": "c13", "C14": "c14", "C15": "c15"}[prop]
    os.makedirs(run.path("w"), exist_ok=True)
    drv = run.sh([vh, "diff-drive", "-cases", cpath, "-out", tpath, "-swagger", swagger, "-work", run.path("w"),
            "-mode", mode, "-seed", str(run.seed)], timeout=3000)
    trace = read_ndjson(tpath)
    rejects, tv = validate(run, prop, tpath, len(trace))
    byid = {i: c for i, c in enumerate(cases)}
    # calibration (two-oracle rule): cases whose witness the reference validator does not confirm are skipped
    calib = {e["id"]: e for e in trace if e["ev"] == "Calib"}
    skipped, disagree = 0, []
    for e in rejects:
        c = byid[e["id"]]
        if prop == "C13":
            cal = calib.get(e["id"])
            if cal and cal["decided"] and not (cal["refA"] and not cal["refB"]):
                skipped += 1
                disagree.append(c["sig"])
                continue
        sig = c["sig"] if prop == "C13" else "%s %s" % (c["sig"], e["why"])
        if prop == "C14":
            sig = c["sig"]
        if prop == "C15" and e["why"].startswith("json format exits 0"):
            sig = "json-format-exit-0"     # one call site: ReportAllDiffs(true) returns a nil warning
        obs = [t for t in trace if t.get("id") == e["id"]]
        run.violations.append(dict(signature=sig, detail=dict(case=c["c"], why=e["why"], event=e["ev"]),
                                   case=c, observed=obs))
    nontrivial = sum(1 for c in cases if c["mustBreak"]) if prop == "C13" else len(cases)
    cov = dict(states=gen["states"] + mc["states"], transitions=gen["transitions"] + mc["transitions"],
               traces_validated_against_impl=len(cases), trace_events=len(trace),
               evaluations=len(cases), distinct_nontrivial=nontrivial,
               rule="one case per distinct state of GenDiff (leaf x edit x location x direction, structural edits); non-trivial = TLC derived MustBreak from request semantics" if prop == "C13" else "one case per distinct state of GenDiff",
               samples=[dict(case=c["c"], mustBreak=c["mustBreak"], witness=c["witness"]) for c in cases[:3]],
               pipeline_mc=dict(states=mc["states"], transitions=mc["transitions"]),
               calibration_skipped=skipped, calibration_disagreements=sorted(set(disagree)),
               rejected_events=len(rejects), exhaustive=(len(cases) == gen["states"]))
    cov["runaway"] = [l for l in drv.stderr.splitlines() if l.startswith("RUNAWAY")]
    if prop in ("C13",):
        import frame_family
        fv, fcov = frame_family.frame_stage(run); run.violations += fv; cov.update(fcov)
    return finish(run, "model_checking", cov, ASSUME)


def check_c12(run, vh, swagger, mc):
    quick = run.tier == "quick"
    os.makedirs(run.path("w"), exist_ok=True)
    # ---- part 1: totality on every pair of the DiffCases universe (TLC-generated documents)
    cases, gen = gen_cases(run, pairs=not quick)
    cpath = run.path("cases.ndjson"); write_ndjson(cpath, cases)
    t1 = run.path("trace1.ndjson")
    drv1 = run.sh([vh, "diff-drive", "-cases", cpath, "-out", t1, "-swagger", "" if quick else swagger, "-work", run.path("w"),
            "-mode", "c12"], timeout=3000)
    tr1 = read_ndjson(t1)
    rej1, tv1 = validate(run, "C12", t1, len(tr1))
    # ---- part 2: identity under neutral re-renderings and totality on pairs of valid repository fixtures
    npool, npair = (24, 16) if quick else (120, 60)
    pool = run.path("pool.ndjson")
    run.sh([vh, "diff-pool", "-repo", REPO, "-seed", str(run.seed), "-n", str(npool), "-out", pool], timeout=1800)
    n = len(read_ndjson(pool))
    if n < 8:
        raise Infra("pool too small: %d" % n)
    g2 = run.tlc("GenC12", "GenC12", workers=1, timeout=600,
                 cfg_subst={"NPool = 3": "NPool = %d" % n, "NPairPool = 3": "NPairPool = %d" % min(n, npair)})
    cases2 = [e for t, e in g2["emitted"] if t == "CASE"]
    c2 = run.path("cases2.ndjson"); write_ndjson(c2, cases2)
    t2 = run.path("trace2.ndjson")
    drv2 = run.sh([vh, "diff-drive12", "-cases", c2, "-pool", pool, "-out", t2, "-swagger", swagger, "-work", run.path("w"),
            "-cli-every", "7" if quick else "3"], timeout=3000)
    tr2 = read_ndjson(t2)
    rej2, tv2 = validate(run, "C12", t2, len(tr2))
    for tr, rej in ((tr1, rej1), (tr2, rej2)):
        byid = {}
        for e in tr:
            byid.setdefault(e["id"], []).append(e)
        for r in rej:
            evs = byid[r["id"]]
            load = evs[0]
            an = next((e for e in evs if e["ev"] == "Analyse"), None)
            c = load.get("c", {})
            if r["ev"] == "Analyse" and an and an["panicked"]:
                sig = "panic@" + an["panicAt"] + ": " + an["err"].replace("runtime error: ", "")[:60]
            elif r["ev"] == "Analyse" and an and an["timedOut"]:
                sig = "timeout:%s" % json.dumps(c, sort_keys=True)
            elif r["ev"] == "Exit":
                ex = next(e for e in evs if e["ev"] == "Exit")
                if ex.get("crashed") and an and an["panicked"]:
                    sig = "panic@" + an["panicAt"] + ": " + an["err"].replace("runtime error: ", "")[:60]
                else:
                    sig = "cli:%s" % json.dumps(c, sort_keys=True)
            else:
                sig = "differs-from-itself:%s" % json.dumps(c, sort_keys=True)
            run.violations.append(dict(signature=sig, detail=dict(case=c, why=r["why"], event=r["ev"]), observed=evs))
    total = len(cases) + len(cases2)
    cov = dict(states=gen["states"] + g2["states"] + mc["states"], transitions=gen["transitions"] + g2["transitions"] + mc["transitions"],
               traces_validated_against_impl=total, trace_events=len(tr1) + len(tr2),
               evaluations=total, distinct_nontrivial=total,
               rule="every pair of the DiffCases universe (both directions) + GenC12 over a seeded pool of valid repository fixtures: self, every non-empty subset of 4 neutral re-renderings, ordered pairs",
               pool_size=n, pool_pairs=min(n, npair) ** 2,
               samples=[c["c"] for c in cases2[:2]] + [cases[0]["c"]],
               rejected_events=len(rej1) + len(rej2))
    cov["runaway"] = [l for l in (drv1.stderr + drv2.stderr).splitlines() if l.startswith("RUNAWAY")]
    import frame_family
    fv, fcov = frame_family.frame_stage(run); run.violations += fv; cov.update(fcov)
    return finish(run, "model_checking", cov, ASSUME + ["validity of pool members is decided by go-openapi/validate (pinned dependency)"])
