"""C01: generated code always builds.  BuildMatrix.tla enumerates document x target x pre-processing
mode x option switches and names at the eight name positions; every case runs the real generator and
the Go compiler; TLC validates the life-cycle trace (successful run => code builds; failure => diagnostic)."""
import os, json, shutil, re, random, concurrent.futures
from common import *
import text_family, det_family

ASSUME = [
    "the Go compiler (go build ./... in a scratch module carrying /repo's require block) decides 'builds'",
    "documents are those of the other families' universes (ModelCases definitions, ParamCases operations, response layouts, rich / nested / wide documents)",
    "name representatives are a fixed menu (one per class); a generation that fails with a diagnostic is compliant for names",
]

NAMES = {
    "plain": "thing", "upper": "THING", "digits_first": "3d model", "spaces": "my thing", "dashes": "my-thing", "dots": "my.thing",
    "punct": "my$thing!", "nonascii": "énumération", "keyword_type": "type", "keyword_func": "func", "keyword_range": "range",
    "predeclared_string": "string", "predeclared_error": "error", "predeclared_nil": "nil", "predeclared_len": "len", "predeclared_true": "true",
    "pkg_context": "context", "pkg_errors": "errors", "member_Validate": "Validate", "member_Context": "Context", "member_HTTPClient": "HTTPClient",
    "member_Error": "Error", "receiver_o": "o", "receiver_m": "m", "slash": "x/y", "initialism": "user id http url", "camel": "myThingID",
    "underscore_first": "_private thing", "dollar": "$thing", "single_letter": "a", "go_test_suffix": "thing_test",
    "backquote": "the `id`", "doublequote": "say \"x\" now", "backslash": "a\\b thing",
    "pkg_models": "models", "pkg_operations": "operations",
    "keyword_cap_Type": "Type", "keyword_cap_Range": "Range", "keyword_cap_Default": "Default", "keyword_cap_Func": "Func", "keyword_cap_Map": "Map",
}


PAIRS = {"space_dash": ("my prop", "my-prop"), "case": ("Label", "label"), "underscore_dash": ("my_prop", "my-prop"), "initialism": ("userId", "user_id"),
         "punct": ("a+b", "a-b"), "digit_prefix": ("1st", "_1st")}


def pair_spec(pos, names):
    d = name_spec("none", "-")
    op = d["paths"]["/things"]["get"]
    a, b = names
    if pos == "property":
        d["definitions"]["zbase"]["properties"][a] = {"type": "integer"}
        d["definitions"]["zbase"]["properties"][b] = {"type": "string"}
    elif pos == "parameter":
        op["parameters"] += [{"name": a, "in": "query", "type": "string"}, {"name": b, "in": "query", "type": "integer"}]
    elif pos == "enum":
        d["definitions"]["zbase"]["properties"]["kind"]["enum"] = [a, b, "other"]
    elif pos == "header":
        op["responses"]["200"]["headers"] = {a: {"type": "string"}, b: {"type": "integer"}}
    elif pos == "tag":
        op["tags"] = [a]
        d["paths"]["/other"] = {"get": {"operationId": "getOther", "tags": [b], "responses": {"200": {"description": "ok"}}}}
    return d


def name_spec(pos, name):
    esc = lambda n: n.replace("~", "~0").replace("/", "~1")
    import urllib.parse
    d = {"swagger": "2.0", "info": {"title": "names", "version": "1"}, "consumes": ["application/json"], "produces": ["application/json"],
         "paths": {"/things": {"get": {"operationId": "listThings", "tags": ["things"], "parameters": [{"name": "q", "in": "query", "type": "string"}],
                                        "responses": {"200": {"description": "ok", "schema": {"$ref": "#/definitions/zbase"}}}}}},
         "definitions": {"zbase": {"type": "object", "properties": {"name": {"type": "string"}, "kind": {"type": "string", "enum": ["one", "two"]}}}}}
    op = d["paths"]["/things"]["get"]
    if pos == "definition":
        d["definitions"][name] = {"type": "object", "properties": {"a": {"type": "string"}}}
        d["paths"]["/other"] = {"get": {"operationId": "getOther", "responses": {"200": {"description": "ok", "schema": {"$ref": "#/definitions/" + urllib.parse.quote(esc(name))}}}}}
    elif pos == "property":
        d["definitions"]["zbase"]["properties"][name] = {"type": "integer"}
    elif pos == "parameter":
        op["parameters"].append({"name": name, "in": "query", "type": "string"})
    elif pos == "operationId":
        op["operationId"] = name
    elif pos == "tag":
        op["tags"] = [name]
    elif pos == "enum":
        d["definitions"]["zbase"]["properties"]["kind"]["enum"] = [name, "other"]
    elif pos == "header":
        op["responses"]["200"]["headers"] = {name: {"type": "string"}}
    elif pos == "scheme":
        d["securityDefinitions"] = {name: {"type": "apiKey", "in": "header", "name": "X-Key"}}
        op["security"] = [{name: []}]
    return d


TARGET_ARGS = {"model": ["generate", "model"], "server": ["generate", "server", "--name", "verif"],
               "client": ["generate", "client", "--name", "verif"], "cli": ["generate", "cli", "--name", "verif"]}
MODE_ARGS = {"minimal": [], "full": ["--with-flatten=full"], "expand": ["--with-expand"]}


def streams_spec():
    model = {"$ref": "#/definitions/item"}
    stream, filet = {"type": "string", "format": "binary"}, {"type": "file"}
    R = lambda desc, sch=None: dict({"description": desc}, **({"schema": sch} if sch else {}))
    ops = {
        "jsonOkStreamConflict": {"200": R("ok", model), "409": R("conflict", stream)},
        "streamOk": {"200": R("ok", filet)},
        "streamDefaultOnly": {"default": R("any", stream)},
        "jsonOkStreamDefault": {"200": R("ok", model), "default": R("err", filet)},
        "streamRedirectAndOk": {"200": R("ok", stream), "302": R("moved", stream)},
        "streamNotFoundOnly": {"204": R("none"), "404": R("missing", filet)},
        "jsonErrStreamOk": {"200": R("ok", stream), "400": R("bad", model), "default": R("err", model)},
    }
    paths = {}
    for i, (oid, resps) in enumerate(sorted(ops.items())):
        paths["/s%d/{id}" % i] = {"get": {"operationId": oid, "tags": ["streams"], "produces": ["application/octet-stream", "application/json"],
                                           "parameters": [{"name": "id", "in": "path", "required": True, "type": "string"}], "responses": resps}}
    paths["/upload"] = {"post": {"operationId": "uploadStream", "consumes": ["application/octet-stream"], "produces": ["application/json"],
                                 "parameters": [{"name": "body", "in": "body", "required": True, "schema": stream}],
                                 "responses": {"201": R("created", model), "413": R("too large", stream)}},
                        "put": {"operationId": "uploadForm", "consumes": ["multipart/form-data"], "produces": ["application/json"],
                                "parameters": [{"name": "file", "in": "formData", "type": "file", "required": True}, {"name": "note", "in": "formData", "type": "string"}],
                                "responses": {"200": R("ok", model), "default": R("err", model)}}}
    return {"swagger": "2.0", "info": {"title": "streams", "version": "1"}, "consumes": ["application/json"], "produces": ["application/json"],
            "paths": paths, "definitions": {"item": {"type": "object", "properties": {"name": {"type": "string"}}}}}


def norm_errs(txt):
    """one (file, message) per generated file the compiler complains about: its first error, normalised"""
    out = {}
    for l in txt.splitlines():
        l = l.strip()
        m = re.match(r"^([^ :]+\.go):\d+:\d+: (.*)$", l)
        if not m:
            continue
        f = re.sub(r"op\d+", "opN", os.path.basename(m.group(1)))     # operations of the parameter universe are numbered
        if f in out:
            continue
        msg = re.sub(r"\b[A-Za-z0-9_]*(?:Thing|thing|Private|Model|Enum|Url|HTTP)[A-Za-z0-9_]*\b", "<id>", m.group(2))
        out[f] = msg[:110]
    return sorted(out.items()) or [("?", "unknown")]


def check(run, replay=None):
    vh = run.build_vh(); swagger = run.build_swagger()
    quick = run.tier == "quick"
    gen = run.tlc("BuildMatrix", "GenBuild", workers=1, timeout=600)
    if not gen["ok"]:
        raise Infra("GenBuild failed: " + gen["out"][-1500:])
    cases = sorted((e for t, e in gen["emitted"] if t == "CASE"), key=lambda c: json.dumps(c, sort_keys=True))
    rnd = random.Random(run.seed)
    if quick:
        names = [c for c in cases if c["kind"] == "name" and c["target"] == "server" and c["mode"] == "minimal"]
        other_names = rnd.sample([c for c in cases if c["kind"] == "name" and c not in names], 24)
        docs = [c for c in cases if c["kind"] == "doc"]
        keep_docs = [c for c in docs if c["mode"] == "minimal" and not c["opts"]]      # incl. the models document (generate model)
        keep_docs += rnd.sample([c for c in docs if c not in keep_docs and c["doc"] not in ("models",)], 16)
        pairs = [c for c in cases if c["kind"] == "pair" and c["target"] in ("server", "model")]
        cases = names + other_names + keep_docs + pairs
    # documents of the other families
    docs = {"rich": text_family.base_spec(), "nested": text_family.nested_spec(), "wide": det_family.wide_spec(), "streams": streams_spec()}
    docfiles = {}
    for k, d in docs.items():
        docfiles[k] = run.path("doc-%s.json" % k); json.dump(d, open(docfiles[k], "w"))
    need = {c["doc"] for c in cases if c["kind"] == "doc"}
    if "params" in need or "responses" in need:
        g4 = run.tlc("GenC04", "GenC04", workers=4, timeout=900)
        rows = [e for t, e in g4["emitted"] if t == "CASE"]
        prow = sorted((r for r in rows if r["k"] == "param"), key=lambda r: json.dumps(r["p"], sort_keys=True))
        write_ndjson(run.path("prows.ndjson"), [dict(p=r["p"]) for r in prow])
        docfiles["params"] = run.path("doc-params.json")
        run.sh([vh, "param-materialise", "-cases", run.path("prows.ndjson"), "-out", docfiles["params"]])
        write_ndjson(run.path("rrows.ndjson"), [dict(resp=r["L"], responses=r["responses"]) for r in rows if r["k"] == "resp"])
        docfiles["responses"] = run.path("doc-responses.json")
        run.sh([vh, "param-materialise", "-cases", run.path("rrows.ndjson"), "-out", docfiles["responses"]])
    if "models" in need:
        gm = run.tlc("GenModels", "GenModels", workers=10, timeout=3000, cache=True)
        write_ndjson(run.path("mrows.ndjson"), [dict(name=e["name"], schema=e["schema"]) for t, e in gm["emitted"] if t == "CASE"])
        docfiles["models"] = run.path("doc-models.json")
        run.sh([vh, "model-materialise", "-defs", run.path("mrows.ndjson"), "-out", docfiles["models"]])

    def one(i):
        c = cases[i]
        mod = run.scratch_module("b%d" % i, modname="scratch/gen")
        if c["kind"] == "name":
            sp = os.path.join(mod, "spec.json"); json.dump(name_spec(c["pos"], NAMES[c["cls"]]), open(sp, "w"))
        elif c["kind"] == "pair":
            sp = os.path.join(mod, "spec.json"); json.dump(pair_spec(c["pos"], PAIRS[c["cls"]]), open(sp, "w"))
        else:
            sp = docfiles[c["doc"]]
        args = TARGET_ARGS[c["target"]] + ["-f", sp, "-t", mod] + MODE_ARGS[c["mode"]]
        for o in c["opts"]:
            if o == "skip_tag_packages" and c["target"] != "model":
                args.append("--skip-tag-packages")
            if o == "strict_responders" and c["target"] == "server":
                args.append("--strict-responders")
            if o == "struct_tags":
                args += ["--struct-tags", "json", "--struct-tags", "yaml"]
            if o == "principal" and c["doc"] == "rich" and c["target"] != "model":
                args += ["--principal", "models.Thing"]
        g = run.sh([swagger] + args, cwd=mod, check=False, timeout=1800)
        evs = [dict(ev="Generate", i=i, exit=g.returncode, errorPrinted=len(g.stderr.strip()) > 0, mustSucceed=c["kind"] in ("doc", "name"),
                    err=g.stderr[-400:] if g.returncode else "")]
        if g.returncode == 0:
            b = run.sh(["go", "build", "-gcflags=-e", "./..."], cwd=mod, check=False, timeout=1800)
            evs.append(dict(ev="Build", i=i, ok=b.returncode == 0, err=b.stderr[:400000]))
        else:
            evs.append(dict(ev="NoBuild", i=i))
        shutil.rmtree(mod, ignore_errors=True)
        return evs

    with concurrent.futures.ThreadPoolExecutor(max_workers=12) as ex:
        results = list(ex.map(one, range(len(cases))))
    events = [e for evs in results for e in evs]
    tpath = run.path("trace.ndjson")
    write_ndjson(tpath, [{k: e[k] for k in e if k != "err"} for e in events])
    r = run.tlc("TraceBuild", "TraceBuild", workers=1, timeout=3000, files={"trace.ndjson": tpath}, allow_fail=True)
    if r["depth"] != len(events) + 1 or not r["ok"]:
        raise Infra("trace not fully consumed: depth %d of %d lines\n%s" % (r["depth"], len(events), r["out"][-3000:]))
    seen = set()
    for t, e in r["emitted"]:
        if t == "REJECT" and e["line"] not in seen:
            seen.add(e["line"])
            ev = events[e["line"] - 1]; c = cases[ev["i"]]
            if c["kind"] == "pair":
                sig = "%s | %s pair %r / %r, target %s" % (e["why"], c["pos"], PAIRS[c["cls"]][0], PAIRS[c["cls"]][1], c["target"])
            elif c["kind"] == "name":
                # one defect per (position, name, target): the pre-processing mode does not take part in name mangling
                sig = "%s | %s named %r, target %s" % (e["why"], c["pos"], NAMES[c["cls"]], c["target"])
            else:
                # one defect per (document, target, generated file, its first compiler error): mode and option
                # switches are in the detail
                for f, msg in norm_errs(ev.get("err", "")):
                    sig = "%s | document %s, target %s | %s: %s" % (e["why"], c["doc"], c["target"], f, msg)
                    run.violations.append(dict(signature=sig, detail=dict(case=c, err=ev.get("err", "")[:900])))
                continue
            run.violations.append(dict(signature=sig, detail=dict(case=c, err=ev.get("err", "")[:900])))
    refused = sum(1 for e in events if e["ev"] == "Generate" and e["exit"] != 0)
    cov = dict(states=gen["states"], transitions=gen["transitions"], traces_validated_against_impl=len(cases), evaluations=len(cases),
               distinct_nontrivial=len(cases), generation_refused=refused,
               rule="cases of BuildMatrix (document kind x target x mode x option set; position x name class x target); quick: all names under `generate server`, a seeded sample of the rest",
               samples=cases[:3], rejected_events=len(seen), exhaustive=not quick)
    return finish(run, "model_checking", cov, ASSUME)
