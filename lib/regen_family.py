"""C11: regeneration never destroys user code and converges.  Regen.tla is model-checked (design),
TLC samples histories (GenRegen, -simulate), the Go harness replays them against the real CLI and
TLC validates the recorded trace (TraceRegen)."""
import os, json
from common import *

ASSUME = [
    "the file set and contents a run is responsible for are those of a fresh generation with the same inputs into an empty directory (observed, not modelled)",
    "the configure file is recognised by its documented name configure_<name>.go",
    "histories are sampled (TLC -simulate), not exhaustive; Regen.tla itself is checked exhaustively for histories <= 4",
    "spec versions range over subsets of 2 operations x 2 definitions on a fixed base document",
]


def documented_layout(run):
    """the server layout file as documented (first yaml block of the 'Server generation' section)"""
    import re
    doc = open(os.path.join(REPO, "docs/reference/templates/template_layout.md")).read()
    m = re.search(r"## Server generation.*?```yaml\n(.*?)```", doc, re.S)
    if not m or "skip_exists" not in m.group(1):
        raise Infra("the documented server layout cannot be extracted from docs/reference/templates/template_layout.md")
    p = run.path("default-server.yml")
    open(p, "w").write(m.group(1))
    return p


def check(run, replay=None):
    vh = run.build_vh()
    swagger = run.build_swagger()
    mc = run.tlc("Regen", "MCRegen", workers=8, timeout=900)
    if not mc["ok"]:
        raise Infra("Regen design check failed: " + mc["out"][-2000:])
    n, depth = (32, 5) if run.tier == "quick" else (400, 7)
    g = run.tlc("Regen", "GenRegen", workers=1, timeout=600, simulate="num=%d" % n, depth=depth + 1,
                extra=["-seed", str(run.seed)], cfg_subst={"MaxHist = 5": "MaxHist = %d" % depth})
    # in simulation mode TLC evaluates the invariant on every successor it considers, so siblings of
    # the chosen behaviours are printed too: take a seeded sample of n distinct histories
    import random
    allc = sorted({json.dumps(e, sort_keys=True) for t, e in g["emitted"] if t == "CASE"})
    random.Random(run.seed).shuffle(allc)
    cases = [json.loads(x) for x in allc[:n]]
    if len(cases) < n // 2:
        raise Infra("too few behaviours generated: %d" % len(cases))
    # focused behaviours, exhaustive: run ; one perturbation ; run again
    f = run.tlc("Regen", "FocusRegen", workers=1, timeout=900,
                cfg_subst={"FocusAll = FALSE": "FocusAll = %s" % ("FALSE" if run.tier == "quick" else "TRUE")})
    if not f["ok"]:
        raise Infra("FocusRegen failed: " + f["out"][-2000:])
    focus = [e for t, e in f["emitted"] if t == "CASE"]
    nrandom = len(cases)
    cases = focus + cases
    cpath = run.path("cases.ndjson"); write_ndjson(cpath, cases)
    tpath = run.path("trace.ndjson")
    os.makedirs(run.path("w"), exist_ok=True)
    run.sh([vh, "regen-drive", "-cases", cpath, "-out", tpath, "-swagger", swagger, "-work", run.path("w"), "-layout", documented_layout(run)], timeout=6000)
    trace = read_ndjson(tpath)
    r = run.tlc("TraceRegen", "TraceRegen", workers=1, timeout=1800, files={"trace.ndjson": tpath}, allow_fail=True)
    if r["depth"] != len(trace) + 1 or not r["ok"]:
        raise Infra("trace not fully consumed: depth %d of %d lines\n%s" % (r["depth"], len(trace), r["out"][-3000:]))
    rejects, seen = [], set()
    for t, e in r["emitted"]:
        if t == "REJECT" and e["line"] not in seen:
            seen.add(e["line"]); rejects.append(e)
    gens = [e for e in trace if e["ev"] == "Gen"]
    failed = [e for e in gens if e["exit"] != 0 or e["freshExit"] != 0]
    for e in rejects:
        ev = trace[e["line"] - 1]
        sig = "%s: generate %s [%s]" % (e["why"], ev["cmd"], ev["opt"])
        run.violations.append(dict(signature=sig, detail=dict(why=e["why"], cmd=ev["cmd"], opt=ev["opt"], spec=ev["spec"]),
                                   history=cases[e["b"]]["hist"][: e["step"] + 1], observed=ev))
    distinct = len({json.dumps(c["hist"]) for c in cases})
    cov = dict(states=mc["states"], transitions=mc["transitions"], traces_validated_against_impl=len(cases),
               trace_events=len(trace), generate_runs=len(gens), failed_runs=len(failed),
               failed_by=sorted({"%s [%s]: %s" % (e["cmd"], e["opt"], (e.get("err") or e.get("freshErr") or "")[-120:].replace("\n", " ")) for e in failed})[:12],
               evaluations=len(cases), distinct_nontrivial=distinct,
               rule="behaviours of Regen.tla sampled by TLC -simulate (seeded), each starting with a generation; distinct = distinct histories",
               samples=[cases[0]["hist"], cases[-1]["hist"]], history_depth=depth, rejected_events=len(rejects),
               focused_histories=len(focus), sampled_histories=nrandom, focused_exhaustive=True)
    import frame_family
    fv, fcov = frame_family.frame_stage(run); run.violations += fv; cov.update(fcov)
    return finish(run, "model_checking", cov, ASSUME)
