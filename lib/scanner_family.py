"""C16: scanned model schemas describe the type's actual JSON encoding.  TLC enumerates model
declarations (GoTypes); the real scanner (codescan.Run) and encoding/json are observed on the same
compiled package; JsonSchema!Valid decides, on the trace, whether they fit.  Second phase: TLC derives
instances from the scanned definitions and the harness decodes them into the types."""
import os, json, shutil, re
from common import *

ASSUME = [
    "encoding/json, reflect and the Go compiler; golang.org/x/tools/go/packages loads the scratch package offline",
    "exemplar values: zero value, a filled value (3 / 1.5 / \"a\" / true, non-nil pointers, 2-element slices, 1-entry maps) and empty-but-non-nil containers",
    "bounded type grammar: 14 basic kinds, 9 special types, depth <= 2, 9 tag options, 3 struct shapes",
]

SPECIAL = {"time": "time.Time", "bytes": "[]byte", "raw": "json.RawMessage", "iface": "interface{}", "named_int": "MyInt",
           "named_str": "MyStr", "named_struct": "Inner", "alias_float": "AliasF", "strfmt_date": "strfmt.Date"}


def gotype(t):
    k = t["k"]
    if k == "basic":
        return t["n"]
    if k == "special":
        return SPECIAL[t["n"]]
    if k == "ptr":
        return "*" + gotype(t["e"])
    if k == "slice":
        return "[]" + gotype(t["e"])
    if k == "array":
        return "[2]" + gotype(t["e"])
    if k == "map":
        return "map[%s]%s" % (t["key"], gotype(t["e"]))
    if k == "anon":
        return 'struct {\n\t\tX int `json:"x"`\n\t\tY *string `json:"y,omitempty"`\n\t}'
    raise ValueError(k)


def field_src(f):
    tag = f["tag"]; ty = gotype(f["ty"])
    name = "F"; pre = ""
    jt = {"plain": 'json:"f"', "rename": 'json:"renamed_f"', "omitempty": 'json:"f,omitempty"', "string": 'json:"f,string"',
          "dash": 'json:"-"', "notag": None, "unexported": 'json:"f"', "ignore": 'json:"f"', "rename_omitempty": 'json:"other,omitempty"',
          "noname_omitempty": 'json:",omitempty"', "noname_string": 'json:",string"', "noname_both": 'json:",omitempty,string"',
          "name_string": 'json:"string"', "name_omitempty": 'json:"omitempty"'}[tag]
    if tag == "unexported":
        name = "f"
    if tag == "ignore":
        pre = "\t// swagger:ignore\n"
    return "%s\t%s %s%s\n" % (pre, name, ty, (" `%s`" % jt) if jt else "")


def package_src(cases):
    out = ['// Package models16 holds the model declarations enumerated by GoTypes.tla.\npackage models16\n\nimport (\n\t"encoding/json"\n\t"time"\n\n\t"github.com/go-openapi/strfmt"\n)\n',
           'var _ = json.RawMessage{}\nvar _ = time.Time{}\nvar _ strfmt.Date\n',
           '// MyInt is a named integer.\ntype MyInt int64\n\n// MyStr is a named string.\ntype MyStr string\n\n// AliasF is an alias.\ntype AliasF = float64\n',
           '// Inner is referenced by other models.\n//\n// swagger:model Inner\ntype Inner struct {\n\tA int `json:"a"`\n\tB *string `json:"b,omitempty"`\n}\n',
           '// EmbBase is embedded.\ntype EmbBase struct {\n\tBase int `json:"base"`\n\tOpt *string `json:"opt,omitempty"`\n}\n',
           '// embHidden is an embedded struct whose type is not exported: encoding/json still promotes its exported fields.\ntype embHidden struct {\n\tRevision int `json:"revision"`\n\tEditor string `json:"editor"`\n}\n']
    reg = []
    for i, c in enumerate(cases):
        n = "Model%d" % i
        emb = {"struct": "", "embedded": "\tEmbBase\n", "embedded_ptr": "\t*EmbBase\n", "embedded_unexported": "\tembHidden\n",
               "embedded_nested_otherfile": "\tAudited\n"}[c["shape"]]
        out.append("// %s is case %d.\n//\n// swagger:model %s\ntype %s struct {\n%s%s\tKeep string `json:\"keep\"`\n}\n" % (n, i, n, n, emb, field_src(c["f"])))
        reg.append('\t"%s": %s{},\n' % (n, n))
    out.append("// Registry of the annotated models.\nvar Registry = map[string]any{\n" + "".join(reg) + "}\n")
    return "\n".join(out)


# a second file of the package: a struct that itself embeds a struct - embedded by models of the first file
OTHER_FILE = ('package models16\n\n// Stamps is embedded by Audited.\ntype Stamps struct {\n\tRevision int `json:"revision"`\n\tCreatedAt string `json:"createdAt"`\n}\n\n'
              '// Audited is embedded by models declared in another file.\ntype Audited struct {\n\tStamps\n\tAuthor string `json:"author"`\n}\n')


def describe(c):
    def ty(t):
        k = t["k"]
        return t["n"] if k in ("basic", "special") else ("anon" if k == "anon" else "%s(%s)" % (k if k != "map" else "map[" + t["key"] + "]", ty(t["e"])))
    return "%s field %s tag=%s" % (c["shape"], ty(c["f"]["ty"]), c["f"]["tag"])


def check_c16(run):
    vh = run.build_vh()
    gen = run.tlc("GenGoTypes", "GenGoTypes1", workers=1, timeout=600)
    if not gen["ok"]:
        raise Infra("GenGoTypes failed: " + gen["out"][-1500:])
    cases = sorted((e for t, e in gen["emitted"] if t == "CASE"), key=lambda c: json.dumps(c, sort_keys=True))
    mod = run.scratch_module("gen", modname="scratch/gen")
    os.makedirs(os.path.join(mod, "models16")); os.makedirs(os.path.join(mod, "drv16"))
    open(os.path.join(mod, "models16", "types.go"), "w").write(package_src(cases))
    open(os.path.join(mod, "models16", "audit.go"), "w").write(OTHER_FILE)
    shutil.copy(os.path.join(HARNESS, "drivers", "typesdrv", "main.go.txt"), os.path.join(mod, "drv16", "main.go"))
    b = run.sh(["go", "build", "-o", run.path("bin", "typesdrv"), "./drv16"], cwd=mod, check=False, timeout=1800)
    if b.returncode != 0:
        raise Infra("the enumerated package does not compile (harness fault): " + b.stderr[-2000:])
    run.sh([vh, "scan-models", "-dir", mod, "-pkg", "./models16", "-out", run.path("scanned.ndjson"), "-raw", run.path("scanned.json")], cwd=mod, timeout=1800)
    sc = read_ndjson(run.path("scanned.ndjson"))
    defs = {e["def"]: e["schema"] for e in sc[1:]}
    events = [dict(ev="Scan", ok=sc[0]["ok"], panicked=sc[0]["panicked"], err=sc[0]["err"], defs=defs)]
    enc = [json.loads(l) for l in run.sh([run.path("bin", "typesdrv")], timeout=600).stdout.splitlines() if l.strip()]
    for e in enc:
        # keys the scanner is told to leave out although encoding/json writes them (swagger:ignore)
        i = int(e["model"][5:])
        e["ignored"] = ["f"] if cases[i]["f"]["tag"] == "ignore" else []
    events += enc
    # phase 2: instances of the scanned definitions, generated by TLC from what the scanner returned
    models = ["Model%d" % i for i in range(len(cases)) if "Model%d" % i in defs]
    g2 = run.tlc("GenGoTypes", "GenGoTypes2", workers=4, timeout=1800,
                 files={"scanned.ndjson": json.dumps(dict(defs=defs, models=models)) + "\n"})
    if not g2["ok"]:
        raise Infra("GenGoTypes phase 2 failed: " + g2["out"][-2000:])
    insts = []
    for t, e in g2["emitted"]:
        if t == "CASE":
            for d in e["instances"]:
                insts.append(dict(model=e["model"], inst=d))
    ip = run.path("instances.ndjson"); write_ndjson(ip, insts)
    dec = [json.loads(l) for l in run.sh([run.path("bin", "typesdrv"), ip], timeout=600).stdout.splitlines() if l.strip()]
    events += dec
    tpath = run.path("trace.ndjson")
    write_ndjson(tpath, [{k: e[k] for k in e if k not in ("text", "err")} for e in events])
    r = run.tlc("TraceGoTypes", "TraceGoTypes", workers=1, timeout=3000, files={"trace.ndjson": tpath}, allow_fail=True)
    if r["depth"] != len(events) + 1 or not r["ok"]:
        raise Infra("trace not fully consumed: depth %d of %d lines\n%s" % (r["depth"], len(events), r["out"][-3000:]))
    rej = []
    seen = set()
    for t, e in r["emitted"]:
        if t == "REJECT" and e["line"] not in seen:
            seen.add(e["line"]); rej.append(e)
    # calibration (two-oracle rule): validate.AgainstSchema - the oracle C16 names - on the rejected pairs
    pairs = [(e, events[e["line"] - 1]) for e in rej if events[e["line"] - 1]["ev"] in ("Encoded", "Decoded")]
    ref = {}
    if pairs:
        cp = run.path("calib.ndjson")
        write_ndjson(cp, [dict(model=ev["model"], value=ev["json"] if ev["ev"] == "Encoded" else ev["inst"]) for _, ev in pairs])
        out = run.sh([vh, "scan-calib", "-raw", run.path("scanned.json"), "-instances", cp]).stdout
        for l in out.splitlines():
            if l.strip():
                x = json.loads(l); ref[x["i"]] = x["valid"]
    skipped = 0
    idx = {id(ev): i for i, (_, ev) in enumerate(pairs)}
    for e in rej:
        ev = events[e["line"] - 1]
        if ev["ev"] == "Scan":
            run.violations.append(dict(signature=e["why"], detail=dict(err=ev["err"]))); continue
        i = int(ev["model"][5:]); c = cases[i]
        rv = ref.get(idx.get(id(ev)))
        if ev["ev"] == "Encoded" and rv is True and e["why"].startswith("the JSON produced"):       # the reference validator accepts what JsonSchema!Valid rejects
            skipped += 1; continue
        if ev["ev"] == "Decoded" and rv is False:      # the reference validator rejects the instance TLC generated
            skipped += 1; continue
        if ev["ev"] == "Encoded" and ev["which"] == "zero" and re.search(r'[:\[,]null', ev.get("text", "")):
            # one broad class: a nil pointer / slice / map is encoded as null
            sig = "a nil pointer, slice or map is encoded as null, which the scanned definition does not admit"
        elif "bytes" in describe(c) or "slice(uint8)" in describe(c):
            sig = "[]byte is described as an array of uint8 but encoding/json encodes it as a base64 string | " + ("encode" if ev["ev"] == "Encoded" else "decode")
        elif ev["ev"] == "Decoded" and c["f"]["tag"] in ("string", "noname_string", "noname_both"):
            sig = "a scalar with the ,string option is described as a plain string: strings that are not a quoted value are accepted but do not decode"
        elif ev["ev"] == "Decoded" and "map[int]" in describe(c):
            sig = "a map with a non-string key type is described by an untyped schema: any value is accepted but only objects decode"
        else:
            sig = "%s | %s | %s" % (e["why"], describe(c), ev.get("which") if ev["ev"] == "Encoded" else "decode " + ev.get("text", "")[:60])
        run.violations.append(dict(signature=sig, detail=dict(case=c, event={k: ev[k] for k in ev if k != "inst"}, inst=ev.get("inst"),
                                                              schema=defs.get(ev["model"]))))
    cov = dict(states=gen["states"] + g2["states"], transitions=gen["transitions"] + g2["transitions"],
               traces_validated_against_impl=len(enc) + len(dec), evaluations=len(enc) + len(dec), distinct_nontrivial=len(cases),
               models=len(cases), encoded_values=len(enc), decoded_instances=len(dec),
               rule="one annotated model per (field type, tag option, struct shape) of GoTypes; 3 exemplar values each; instances TLC derives from the scanned definition",
               samples=[describe(c) for c in cases[:3]], rejected_events=len(seen), calibration_skipped=skipped, exhaustive=True)
    return finish(run, "model_checking", cov, ASSUME)


# ---------------------------------------------------------------------------------------------- C17
MODELS_SRC = '''
// Pet is a pet.
//
// swagger:model pet
type Pet struct {
	// the id
	//
	// required: true
	ID int64 `json:"id"`
	// the name
	Name string `json:"name"`
}

// Validated has validations.
//
// swagger:model validated
type Validated struct {
	// minimum: 1
	// maximum: 10
	Count int32 `json:"count"`
	// min length: 2
	// pattern: ^a
	Label string `json:"label"`
}

// Composed is composed.
//
// swagger:model composed
type Composed struct {
	// swagger:allOf
	Pet
	// swagger:allOf
	Extra
}

// Extra is the second member.
type Extra struct {
	More string `json:"more"`
}

// Stamped has formatted strings.
//
// swagger:model stamped
type Stamped struct {
	// swagger:strfmt date-time
	When string `json:"when"`
	// swagger:strfmt uuid
	ID string `json:"id"`
}

// Partial hides a field.
//
// swagger:model partial
type Partial struct {
	Shown string `json:"shown"`
	// swagger:ignore
	Hidden string `json:"hidden"`
}

// Colored has an enum.
//
// swagger:model colored
type Colored struct {
	// enum: red,green
	Color string `json:"color"`
}

// Outer nests an anonymous struct.
//
// swagger:model outer
type Outer struct {
	Inner struct {
		A int `json:"a"`
	} `json:"inner"`
}

// GenericError is the default response.
//
// swagger:response genericError
type GenericError struct {
	// in: body
	Body struct {
		Message string `json:"message"`
	}
}

// PetResponse returns a pet.
//
// swagger:response petResponse
type PetResponse struct {
	// in: body
	Body *Pet
	// the rate
	// in: header
	XRate int32 `json:"X-Rate"`
}

// ValidationErrorModel is a model that has the name of a response.
//
// swagger:model validationError
type ValidationErrorModel struct {
	Code int32 `json:"code"`
}

// ValidationError is a 422.
//
// swagger:response validationError
type ValidationError struct {
	// in: body
	Body struct {
		Field string `json:"field"`
	}
}
'''

META = '''// Package PKG is the API.
//
// the purpose of this application is to test the scanner
//
//	Schemes: http
//	Host: localhost
//	BasePath: /v2
//	Version: 0.0.1
//
//	Consumes:
//	- application/json
//
//	Produces:
//	- application/json
//
//	SecurityDefinitions:
//	  api_key:
//	    type: apiKey
//	    name: KEY
//	    in: header
//
// swagger:meta
package PKG
'''


def kw(name, spell):
    long = {"minimum": "Minimum", "maximum": "Maximum", "minLength": "Minimum length", "maxLength": "Maximum length",
            "minItems": "Minimum items", "required": "Required", "in": "In", "collectionFormat": "Collection format", "itemsMinLength": "Items.Minimum length", "itemsMinimum": "Items.Minimum", "itemsMaximum": "Items.Maximum"}
    short = {"minimum": "min", "maximum": "max", "minLength": "min length", "maxLength": "max length",
             "minItems": "min items", "required": "required", "in": "in", "collectionFormat": "collection format", "itemsMinLength": "items.min length", "itemsMinimum": "items.min", "itemsMaximum": "items.max"}
    return (long if spell == "long" else short)[name]


def param_fields(kinds, spell):
    out = []
    K = lambda n: kw(n, spell)
    if "q_string" in kinds:
        out.append("\t// a query\n\t// %s: query\n\tQ string `json:\"q\"`\n" % K("in"))
    if "q_int_bounds" in kinds:
        out.append("\t// the limit\n\t//\n\t// %s: query\n\t// %s: 1\n\t// %s: 100\n\tLimit int32 `json:\"limit\"`\n" % (K("in"), K("minimum"), K("maximum")))
    if "q_strings_items" in kinds:
        out.append("\t// %s: query\n\t// %s: pipes\n\t// %s: 1\n\t// %s: 2\n\tTags []string `json:\"tags\"`\n" % (K("in"), K("collectionFormat"), K("minItems"), K("itemsMinLength")))
    if "q_ptr_items" in kinds:
        out.append("\t// %s: query\n\t// %s: 3\n\t// %s: 9\n\tCounts []*int64 `json:\"counts\"`\n" % (K("in"), K("itemsMinimum"), K("itemsMaximum")))
    if "path_int" in kinds:
        out.append("\t// the id\n\t// %s: path\n\t// %s: true\n\tID int64 `json:\"id\"`\n" % (K("in"), K("required")))
    if "header_str_len" in kinds:
        out.append("\t// %s: header\n\t// %s: 3\n\t// %s: 10\n\tXTrace string `json:\"X-Trace\"`\n" % (K("in"), K("minLength"), K("maxLength")))
    if "body_model" in kinds:
        out.append("\t// the pet\n\t// %s: body\n\t// %s: true\n\tPet *Pet `json:\"pet\"`\n" % (K("in"), K("required")))
    if "form_bool" in kinds:
        out.append("\t// %s: formData\n\tFlag bool `json:\"flag\"`\n" % K("in"))
    if "q_required" in kinds:
        out.append("\t// %s: query\n\t// %s: true\n\tMust string `json:\"must\"`\n" % (K("in"), K("required")))
    return "\n".join(out)


def program_src(pkg, op):
    dash = "- " if op["spell"] == "long" else ""
    L = ["// swagger:route %s %s %s%s" % (op["method"], op["path"], (" ".join(op["tags"]) + " ") if op["tags"] else "", op["id"]), "//"]
    if "summary" in op["blocks"]:
        L += ["// Lists the pets.", "//", "// This is the longer description", "// on two lines.", "//"]
    if "consumes" in op["blocks"]:
        L += ["// Consumes:", "// %sapplication/json" % dash, "// %sapplication/xml" % dash, "//"]
    if "produces" in op["blocks"]:
        L += ["// Produces:", "// %sapplication/json" % dash, "//"]
    if "schemes" in op["blocks"]:
        L += ["// Schemes: http, https", "//"]
    if "deprecated" in op["blocks"]:
        L += ["// Deprecated: true", "//"]
    if "security" in op["blocks"]:
        L += ["// Security:", "//   api_key:", "//"]
    if "inline_params" in op["blocks"]:
        L += ["// Parameters:",
              "//   + name: isort", "//     in: query", "//     description: inline order", "//     required: false", "//     type: string",
              "//     enum: asc,desc", "//     default: asc",
              "//   + name: ilimit", "//     in: query", "//     description: inline limit", "//     required: false",
              "//     type: integer", "//     format: int32", "//     min: 1", "//     max: 50",
              "//   + name: ioffset", "//     in: query", "//     description: inline offset", "//     required: false", "//     type: integer", "//"]
    resp = {"none": [], "default_only": ["default: genericError"], "ok_and_default": ["default: genericError", "200: petResponse"],
            "three": ["default: genericError", "200: petResponse", "422: validationError"]}[op["resp"]]
    if resp:
        L += ["// Responses:"] + ["//   " + r for r in resp]
    src = META.replace("PKG", pkg) + '\nimport "fmt"\n\nvar _ = fmt.Sprint\n' + MODELS_SRC
    src += "\n// handler registration\nfunc register() {\n\t" + "\n\t".join(L) + "\n\t_ = fmt.Sprint()\n}\n"
    if "companion_operation" in op["blocks"]:
        C = ["// swagger:operation GET /companions companions listCompanions", "//", "// Lists the companions.", "//", "// ---", "// produces:", "// - application/json",
             "// parameters:", "// - name: climit", "//   in: query", "//   type: integer", "//   required: false", "// responses:", "//   '200':", "//     description: ok"]
        src += "\n// companion handler\nfunc companions() {\n\t" + "\n\t".join(C) + "\n\t_ = fmt.Sprint()\n}\n"
    if op["params"]:
        src += "\n// OpParams are the parameters.\n//\n// swagger:parameters %s\ntype OpParams struct {\n%s}\n" % (op["id"], param_fields(op["params"], op["spell"]))
    return src


LINE_TEXT = {"annotation": "swagger:model robustThing", "text": "some plain text here.", "blank": "", "tag_single": "minimum: 3",
             "tag_block": "Responses:", "tag_item": "  200: someResponse", "yaml_fence": "---", "indented": "      deeply indented: [x",
             "garbage_colon": "what: ever: : -"}


def robust_src(pkg, host, lines):
    body = "\n".join(("// " + LINE_TEXT[c]).rstrip() for c in lines)
    src = "// Package %s is robust.\npackage %s\n\n" % (pkg, pkg)
    if host == "package":
        return body + "\n//\n// swagger:meta\npackage %s\n\n// T is a type.\ntype T struct{ A int }\n" % pkg
    if host == "model":
        return src + "// T is a thing.\n//\n// swagger:model\n" + body + "\ntype T struct {\n\tA int `json:\"a\"`\n}\n"
    if host == "field":
        return src + "// T is a thing.\n//\n// swagger:model\ntype T struct {\n\t" + body.replace("\n", "\n\t") + "\n\tA int `json:\"a\"`\n}\n"
    if host == "params":
        return src + "// P has parameters.\n//\n// swagger:parameters someOp\ntype P struct {\n\t// in: query\n\t" + body.replace("\n", "\n\t") + "\n\tA []string `json:\"a\"`\n}\n"
    return src + "func register() {\n\t// swagger:route GET /things things listThings\n\t//\n\t" + body.replace("\n", "\n\t") + "\n}\n"


INPUT_SPEC = {"swagger": "2.0", "info": {"title": "existing", "version": "1"}, "paths": {"/existing": {"get": {"operationId": "existingOp", "responses": {"200": {"description": "ok"}}}}},
              "definitions": {"existingDef": {"type": "object", "properties": {"z": {"type": "string"}}}}}


def check_c17(run):
    vh = run.build_vh()
    mc = run.tlc("Annot", "MCAnnot", workers=8, timeout=900)
    if not mc["ok"]:
        raise Infra("Annot design check failed: " + mc["out"][-1500:])
    ns, nr = (24, 40) if run.tier == "quick" else (300, 400)
    sub = {"NSample = 24": "NSample = %d" % ns, "NRobust = 40": "NRobust = %d" % nr}
    g1 = run.tlc("GenAnnot", "GenAnnot1", workers=1, timeout=900, extra=["-seed", str(run.seed)], cfg_subst=sub)
    g2 = run.tlc("GenAnnot", "GenAnnot2", workers=1, timeout=900, extra=["-seed", str(run.seed)], cfg_subst=sub)
    if not (g1["ok"] and g2["ok"]):
        raise Infra("GenAnnot failed: " + (g1["out"] + g2["out"])[-2000:])
    cases = sorted((e for t, e in g1["emitted"] + g2["emitted"] if t == "CASE"), key=lambda c: json.dumps(c, sort_keys=True))
    mod = run.scratch_module("gen", modname="scratch/gen")
    for i, c in enumerate(cases):
        d = os.path.join(mod, "p%d" % i); os.makedirs(d)
        pkg = "p%d" % i
        if c["kind"] == "program":
            open(os.path.join(d, "api.go"), "w").write(program_src(pkg, c["op"]))
            if c["merge"] == "self":
                open(os.path.join(d, "selfmerge"), "w").write("scan twice: the second time with the first output as input\n")
            elif c["merge"] != "none":
                inp = json.loads(json.dumps(INPUT_SPEC))
                if c["merge"] == "same_op":
                    o = c["op"]
                    inp["paths"][o["path"]] = {o["method"].lower(): {"operationId": o["id"], "responses": {"200": {"description": "declared by the input spec"}}}}
                json.dump(inp, open(os.path.join(d, "input.json"), "w"))
        else:
            open(os.path.join(d, "api.go"), "w").write(robust_src(pkg, c["host"], c["lines"]))
    b = run.sh(["go", "build", "./..."], cwd=mod, check=False, timeout=1800)
    notcompiling = set(re.findall(r"(p\d+)/api\.go", b.stderr)) if b.returncode != 0 else set()
    run.sh([vh, "scan-programs", "-root", mod, "-n", str(len(cases)), "-out", run.path("scanned.ndjson")], cwd=mod, timeout=3000)
    sc = read_ndjson(run.path("scanned.ndjson"))
    events, skipped = [], 0
    for c, r in zip(cases, sc):
        if "p%d" % r["i"] in notcompiling:          # C17 quantifies over compilable programs
            skipped += 1
            continue
        if c["kind"] == "program":
            events.append(dict(ev="Scanned", i=r["i"], op=c["op"], merge=c["merge"], panicked=r["panicked"], failed=r["failed"], valid=r["valid"],
                               ops=r["ops"], models=r["models"], mergedKept=r["mergedKept"], err=r["err"]))
        else:
            events.append(dict(ev="Robust", i=r["i"], host=c["host"], lines=c["lines"], panicked=r["panicked"], failed=r["failed"], err=r["err"]))
    tpath = run.path("trace.ndjson")
    write_ndjson(tpath, [{k: e[k] for k in e if k != "err"} for e in events])
    r = run.tlc("TraceAnnot", "TraceAnnot", workers=1, timeout=3000, files={"trace.ndjson": tpath}, allow_fail=True)
    if r["depth"] != len(events) + 1 or not r["ok"]:
        raise Infra("trace not fully consumed: depth %d of %d lines\n%s" % (r["depth"], len(events), r["out"][-3000:]))
    seen = set()
    for t, e in r["emitted"]:
        if t == "REJECT" and e["line"] not in seen:
            seen.add(e["line"])
            ev = events[e["line"] - 1]
            if ev["ev"] == "Robust":
                site = re.findall(r"codescan\.[\w\.\(\)\*]+", ev["err"])
                sig = "%s | comment on %s: %s | %s" % (e["why"], ev["host"], " ".join(ev["lines"]), site[0] if site else "")
            else:
                o = ev["op"]
                if o["resp"] == "none" and "validation" in e["why"]:
                    run.violations.append(dict(signature="a swagger:route without a Responses section yields an operation without responses: the document fails validation and no error is reported", detail=ev))
                    continue
                sig = "%s | %s %s tags=%d resp=%s blocks=%s params=%s spell=%s merge=%s" % (e["why"], o["method"], o["path"], len(o["tags"]), o["resp"],
                                                                                ",".join(sorted(o["blocks"])), ",".join(sorted(o["params"])), o["spell"], ev["merge"])
            run.violations.append(dict(signature=sig, detail=ev))
    nprog = sum(1 for e in events if e["ev"] == "Scanned")
    if nprog == 0:
        raise Infra("no program could be scanned (harness fault): " + b.stderr[-1000:])
    cov = dict(states=mc["states"] + g1["states"] + g2["states"], transitions=mc["transitions"] + g1["transitions"] + g2["transitions"],
               traces_validated_against_impl=len(events), evaluations=len(events), distinct_nontrivial=len(events), programs=nprog,
               robustness_cases=len(events) - nprog, not_compiling_skipped=skipped,
               rule="annotated programs: every dimension of the route/parameters grammar varied around a base operation + a seeded sample of the product (+ merge with an input spec); robustness: seeded line-class sequences (<= 4 lines of 9 classes) as comments on 5 kinds of hosts",
               samples=[cases[0], cases[-1]], rejected_events=len(seen))
    return finish(run, "model_checking", cov, ["validate.Spec (pinned dependency) decides Swagger 2.0 validity", "go build decides that a generated program is compilable"])


def check(run, replay=None):
    return {"C16": check_c16, "C17": check_c17}[run.pid](run)
