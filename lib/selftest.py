"""Binding self-test (DESIGN 4.3): after a trace of the real code has been validated, one recorded field of
one accepted event is corrupted and the trace specification must REJECT exactly that line (or refuse to
consume it).  A corruption that is accepted means the trace specification does not constrain the field it
is supposed to judge - the check then proves nothing about it: exit 2, never a verdict about /repo.

REGISTRY: trace module -> list of (name, applies(cfg), predicate(event), mutate(event), tries).
`tries`: where the statement leaves latitude (both verdicts allowed for some instances) several candidate
events are tried; one rejection suffices."""
import copy, json, os


def _flip(k):
    def f(e):
        e[k] = not e[k]
    return f


def _set(k, v):
    def f(e):
        e[k] = v
    return f


def _drop_first_member(e):
    o = e["out1"]
    k = sorted(o[1])[0]
    del o[1][k]
    e["out2"] = copy.deepcopy(o)


def _drop_property(e):
    ps = e["schema"]["properties"]
    del ps[sorted(ps)[0]]


def _drop_fresh_file(e):
    k = sorted(set(e["fresh"]) & set(e["after"]))[0]
    del e["after"][k]


def _runs_digest(e):
    e["runs"][-1]["digest"] = "corrupted"


def _op_id(e):
    e["ops"][0]["id"] = "corrupted"


def _nhandlers(e):
    e["nHandlers"] -= 1


ALL = lambda cfg: True
REGISTRY = {
    "TraceBuild": [("a successful build recorded as failed", ALL, lambda e: e["ev"] == "Build" and e["ok"], _set("ok", False), 1)],
    "TraceModels": [
        ("the verdict of Validate flipped", lambda c: c.endswith("C02"), lambda e: e["ev"] == "Model" and not e["missing"] and not e["decodeErr"], _flip("validateErr"), 8),
        ("a member dropped from the re-encoded document", lambda c: c.endswith("C05"),
         lambda e: e["ev"] == "Model" and e.get("hasOut") and not e["decodeErr"] and e["out1"][0] == "obj" and len(e["out1"][1]) > 0 and e["doc"] == e["out1"], _drop_first_member, 8),
        ("a property dropped from the scanned definition", lambda c: c.endswith("C18"),
         lambda e: e["ev"] == "Scanned" and e["found"] and len(e["schema"].get("properties", {})) > 0, _drop_property, 4),
    ],
    "TraceParams": [("handler reached / not reached flipped", ALL, lambda e: e["ev"] == "Bound", _flip("reached"), 6)],
    "TraceC04": [("the value received by the handler replaced", ALL, lambda e: e["ev"] == "ParamCall" and e["hasValue"] and e["reached"], _set("received", ["obj", {}]), 6)],
    "TraceSecurity": [("handler reached / not reached flipped", ALL, lambda e: e["ev"] == "Request", _flip("reached"), 6)],
    "TraceDeterminism": [("the digest of a repetition changed", ALL, lambda e: e["ev"] == "Run" and e.get("rep", 0) > 0 and e["exit"] == 0, _set("digest", "corrupted"), 2)],
    "TraceDiff": [
        ("a difference added to the comparison of a document with itself", lambda c: c.endswith("C12"),
         lambda e, last: e["ev"] == "Analyse" and e["nab"] == 0 and last.get("Load", {}).get("c", {}).get("kind") in ("self", "neutral", "identity"), _set("nab", 1), 3),
        ("the breaking count of an analysis zeroed", lambda c: c.endswith("C13"), lambda e: e["ev"] == "Analyse" and e["breaking"] > 0, _set("breaking", 0), 12),
        ("the size of one direction changed", lambda c: c.endswith("C14"), lambda e: e["ev"] == "Analyse" and not e["panicked"], lambda e: e.__setitem__("nab", e["nab"] + 1), 3),
        ("the exit status of the text run flipped", lambda c: c.endswith("C15"), lambda e: e["ev"] == "Exit", lambda e: e.__setitem__("exit", 0 if e["exit"] else 1), 3),
    ],
    "TraceEmbed": [("the embedded original document changed", ALL, lambda e: e["ev"] == "Embedded" and e["built"], _set("orig", "corrupted"), 2)],
    "TraceGoSwagger": [
        ("the output in the other format differs", ALL, lambda e: e["ev"] == "Transform" and e["exit"] == 0, _set("cidAlt", "corrupted"), 2),
        ("a user file touched by a generation", ALL, lambda e: e["ev"] == "Generate" and e["exit"] == 0, _set("userOK", False), 2),
        ("the embedded original document changed", ALL, lambda e: e["ev"] == "Generate" and e["kind"] == "server" and e["exit"] == 0, _set("embOrigCid", "corrupted"), 2),
        ("a validation recorded as failed", ALL, lambda e: e["ev"] == "Validate" and e["exit"] == 0, _set("exit", 1), 2),
        ("a report for two renderings of one document", ALL, lambda e: e["ev"] == "Diff" and e["reportEmpty"] and e["exit"] == 0, _set("reportEmpty", False), 4),
    ],
    "TraceGoTypes": [("an accepted instance recorded as not decodable", ALL, lambda e: e["ev"] == "Decoded" and e["decodes"], _set("decodes", False), 2)],
    "TraceLex": [("the erased AST recorded as changed", ALL, lambda e: e["ev"] == "Inject" and e["genExit"] == 0 and e["astEqual"], _set("astEqual", False), 2)],
    "TraceNames": [
        ("a handler missing", ALL, lambda e: e["ev"] == "Inspect" and e["nHandlers"] > 0, _nhandlers, 2),
        ("a route not reaching its handler", ALL, lambda e: e["ev"] == "Route" and e["reached"], _set("reached", False), 2),
    ],
    "TraceRegen": [("a file of the run's responsibility missing afterwards", ALL,
                    lambda e: e["ev"] == "Gen" and e["exit"] == 0 and len(set(e.get("fresh", {})) & set(e.get("after", {}))) > 0, _drop_fresh_file, 3)],
    "TraceAnnot": [("the operation id of the scanned route changed", ALL,
                    lambda e: e["ev"] == "Scanned" and not e["failed"] and not e["panicked"] and e["valid"] and len(e["ops"]) > 0, _op_id, 3)],
    "TraceYaml": [("the digest of one output changed", ALL, lambda e: e["ev"] == "Runs" and len(e["runs"]) > 1 and all(r["exit"] == 0 for r in e["runs"]), _runs_digest, 2)],
}


def binding_selftest(run, module, cfg, trace_path, rejected_lines, kw):
    """kw: the keyword arguments of the validating Run.tlc call (workers, timeout, cfg_subst ...)."""
    from common import read_ndjson, write_ndjson, Infra
    specs = [s for s in REGISTRY.get(module, []) if s[1](cfg)]
    if not specs:
        return []
    events = read_ndjson(trace_path)
    results = []
    for name, _, pred, mutate, tries in specs:
        cands, last = [], {}
        two = pred.__code__.co_argcount == 2          # predicate(event, last event of each kind before it)
        for i, e in enumerate(events):
            try:
                if (i + 1) not in rejected_lines and (pred(e, last) if two else pred(e)):
                    cands.append(i)
            except (KeyError, IndexError, TypeError, AttributeError):
                pass
            last[e.get("ev")] = e
            if len(cands) >= tries:
                break
        ok, tested = False, 0
        for i in cands:
            ev2 = copy.deepcopy(events[: i + 1])
            mutate(ev2[i])
            p = run.path("selftest-%s-%d.ndjson" % (module, run.n_tlc))
            write_ndjson(p, ev2)
            r = run.tlc(module, cfg, files={"trace.ndjson": p}, allow_fail=True, selftest=False, **kw)
            tested += 1
            rej = {e["line"] for t, e in r["emitted"] if t == "REJECT"}
            if (i + 1) in rej or r["depth"] != len(ev2) + 1:
                ok = True
                break
        results.append(dict(module=module, cfg=cfg, corruption=name, candidates=len(cands), tested=tested, rejected=ok))
        if tested and not ok:
            raise Infra("binding self-test: %s/%s accepts a trace in which %s (%d candidate events tried): the trace specification does not constrain what it is meant to judge"
                        % (module, cfg, name, tested))
    return results
