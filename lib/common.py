"""Shared plumbing for /verif/bin/check: temp dirs, go builds, TLC runs, trace validation,
known-findings filter, evidence files.  Python stdlib only."""
import json, os, re, shutil, subprocess, sys, tempfile, time, hashlib

VERIF = os.path.dirname(os.path.dirname(os.path.abspath(__file__)))
REPO = os.environ.get("VERIF_REPO", "/repo")
SPEC = os.path.join(VERIF, "spec")
HARNESS = os.path.join(VERIF, "harness")
TAG = "verif"
NCPU = os.cpu_count() or 4

GOENV = dict(os.environ, GOFLAGS="-mod=mod", GOPROXY="off", GOSUMDB="off", GOTOOLCHAIN="local",
             CGO_ENABLED=os.environ.get("CGO_ENABLED", "0"))


class Infra(Exception):
    """Infrastructure failure: exit 2, never a violation."""


class Run:
    def __init__(self, pid, tier, seed):
        self.pid, self.tier, self.seed = pid, tier, seed
        self.t0 = time.time()
        base = os.environ.get("VERIF_TMP", tempfile.gettempdir())
        self.work = tempfile.mkdtemp(prefix="verif-%s-" % pid, dir=base)
        self.keep = bool(os.environ.get("VERIF_KEEP"))
        self.n_tlc = 0
        self.log = open(os.path.join(self.work, "check.log"), "w")
        self.violations = []   # list of dict(signature, detail, replay)
        self.known = []
        self.notes = []
        self.selftests = []    # binding self-tests run after each trace validation (lib/selftest.py)

    def say(self, *a):
        msg = " ".join(str(x) for x in a)
        print(msg, flush=True)
        self.log.write(msg + "\n")

    def path(self, *a):
        p = os.path.join(self.work, *a)
        os.makedirs(os.path.dirname(p), exist_ok=True)
        return p

    def cleanup(self):
        self.log.close()
        if not self.keep:
            # go module cache files are read-only; generated trees are not, but be safe
            subprocess.call(["chmod", "-R", "u+w", self.work], stderr=subprocess.DEVNULL)
            shutil.rmtree(self.work, ignore_errors=True)

    # ------------------------------------------------------------------ builds
    def sh(self, cmd, cwd=None, env=None, timeout=1800, check=True, stdin=None, quiet=False):
        t = time.time()
        p = subprocess.run(cmd, cwd=cwd, env=env or GOENV, timeout=timeout, input=stdin,
                           stdout=subprocess.PIPE, stderr=subprocess.PIPE, text=True)
        self.log.write("$ %s  [%s] rc=%d %.1fs\n" % (" ".join(cmd) if isinstance(cmd, list) else cmd, cwd, p.returncode, time.time() - t))
        if p.returncode != 0 and check:
            self.log.write(p.stdout[-4000:] + "\n" + p.stderr[-4000:] + "\n")
            raise Infra("command failed: %s\n%s\n%s" % (cmd, p.stdout[-3000:], p.stderr[-3000:]))
        return p

    def build_vh(self, race=False):
        """Build the harness binary against /repo's current working tree (replace => REPO)."""
        out = self.path("bin", "vh-race" if race else "vh")
        if os.path.exists(out):
            return out
        self._sync_gomod()
        env = dict(GOENV)
        cmd = ["go", "build", "-tags", TAG, "-o", out]
        if race:
            env["CGO_ENABLED"] = "1"
            cmd.insert(2, "-race")
        cmd.append("./cmd/vh")
        self.sh(cmd, cwd=self._harness_copy(), env=env)
        return out

    def _harness_copy(self):
        """The harness is built from a copy so that `go` never rewrites files under /verif and the
        replace directive can follow VERIF_REPO."""
        dst = self.path("harness-src", "go.mod")
        d = os.path.dirname(dst)
        if os.path.exists(os.path.join(d, "cmd")):
            return d
        shutil.rmtree(d, ignore_errors=True)
        shutil.copytree(HARNESS, d)
        gm = open(os.path.join(d, "go.mod")).read().replace("=> /repo", "=> " + REPO)
        open(os.path.join(d, "go.mod"), "w").write(gm)
        shutil.copy(os.path.join(REPO, "go.sum"), os.path.join(d, "go.sum"))
        return d

    def _sync_gomod(self):
        pass

    def build_swagger(self):
        out = self.path("bin", "swagger")
        if os.path.exists(out):
            return out
        self.sh(["go", "build", "-tags", TAG, "-o", out, "./cmd/swagger"], cwd=REPO)
        return out

    def scratch_module(self, name="gen", modname=None):
        """A Go module outside /repo and /verif in which generated code compiles: go.mod carries
        /repo's require block, go.sum copied."""
        d = self.path(name, "go.mod")
        d = os.path.dirname(d)
        src = open(os.path.join(REPO, "go.mod")).read()
        reqs = re.findall(r"require \((.*?)\)", src, re.S)
        gm = "module %s\n\ngo 1.21\n\n" % (modname or ("scratch/" + name))
        for r in reqs:
            gm += "require (" + r + ")\n\n"
        open(os.path.join(d, "go.mod"), "w").write(gm)
        shutil.copy(os.path.join(REPO, "go.sum"), os.path.join(d, "go.sum"))
        return d

    # ------------------------------------------------------------------ TLC
    def tlc(self, module, cfg, workers=1, timeout=900, simulate=None, depth=None, extra=(),
            files=None, coverage=False, heap=None, allow_fail=False, cfg_subst=None, selftest=True, cache=False):
        """Run TLC on spec/<module>.tla with spec/cfg/<cfg>.cfg in a scratch copy of the spec dir.
        files: dict name -> content (or path) dropped next to the spec (trace.ndjson, cases.ndjson).
        Returns dict(out, states, distinct, depth, ok, emitted[list of (tag, json)])."""
        self.n_tlc += 1
        d = self.path("tlc-%d-%s" % (self.n_tlc, cfg))
        os.makedirs(d, exist_ok=True)
        for f in os.listdir(SPEC):
            if f.endswith(".tla"):
                shutil.copy(os.path.join(SPEC, f), d)
        ctext = open(os.path.join(SPEC, "cfg", cfg + ".cfg")).read()
        for a, b in (cfg_subst or {}).items():       # constants of the config overridden per run
            if a not in ctext:
                raise Infra("cfg_subst: %r not in %s.cfg" % (a, cfg))
            ctext = ctext.replace(a, b)
        open(os.path.join(d, cfg + ".cfg"), "w").write(ctext)
        for k, v in (files or {}).items():
            if isinstance(v, str) and os.path.exists(v) and "\n" not in v:
                shutil.copy(v, os.path.join(d, k))
            else:
                open(os.path.join(d, k), "w").write(v)
        cmd = ["timeout", str(timeout), "tlc", "-workers", str(workers), "-metadir", os.path.join(d, "meta"),
               "-config", cfg + ".cfg"]
        if simulate:
            cmd += ["-simulate", simulate]
        if depth:
            cmd += ["-depth", str(depth)]
        if coverage:
            cmd += ["-coverage", "1"]
        cmd += list(extra) + [module + ".tla"]
        env = dict(os.environ)
        jopts = "-Xss512m"
        if heap:
            jopts += " -Xmx%s" % heap
        env["JAVA_TOOL_OPTIONS"] = (env.get("JAVA_TOOL_OPTIONS", "") + " " + jopts).strip()
        t = time.time()
        ckey = None
        if cache and not files and not simulate:
            # pure case generation (no input from /repo, no seed): its output is a function of the specification
            h = hashlib.sha256()
            for f in sorted(os.listdir(d)):
                if f.endswith(".tla") or f.endswith(".cfg"):
                    h.update(f.encode()); h.update(open(os.path.join(d, f), "rb").read())
            h.update(" ".join(str(x) for x in extra).encode())
            ckey = os.path.join(VERIF, ".cache", "%s-%s-%s.out" % (module, cfg, h.hexdigest()[:20]))
        if ckey and os.path.exists(ckey):
            class _P: pass
            p = _P(); p.stdout = open(ckey).read(); p.returncode = 0
        else:
            p = subprocess.run(cmd, cwd=d, env=env, stdout=subprocess.PIPE, stderr=subprocess.STDOUT, text=True)
            if ckey and p.returncode == 0 and "No error has been found" in p.stdout:
                os.makedirs(os.path.dirname(ckey), exist_ok=True)
                tmp = ckey + ".%d" % os.getpid()
                open(tmp, "w").write(p.stdout); os.replace(tmp, ckey)
        out = p.stdout
        open(os.path.join(d, "tlc.out"), "w").write(out)
        self.log.write("$ %s [%s] rc=%d %.1fs\n" % (" ".join(cmd), d, p.returncode, time.time() - t))
        res = dict(out=out, rc=p.returncode, dir=d, wall=time.time() - t)
        m = re.search(r"(\d+) states generated, (\d+) distinct states found", out)
        res["states"] = int(m.group(2)) if m else 0
        res["transitions"] = int(m.group(1)) if m else 0
        m = re.search(r"depth of the complete state graph search is (\d+)", out)
        res["depth"] = int(m.group(1)) if m else 0
        res["ok"] = ("No error has been found" in out or (simulate and "traces generated" in out and "Error:" not in out)) and p.returncode == 0
        res["violated"] = re.findall(r"Invariant (\S+) is violated|Action property (\S+) is violated|Temporal properties were violated", out)
        if p.returncode == 124:
            raise Infra("TLC timeout on %s/%s" % (module, cfg))
        if not res["ok"] and not res["violated"] and not allow_fail and "is violated" not in out and "POSTCONDITION" not in out.upper():
            raise Infra("TLC failed on %s/%s:\n%s" % (module, cfg, out[-3000:]))
        res["emitted"] = parse_emitted(out)
        if coverage:
            res["cov_zero"] = re.findall(r"^\s*<(\w+) line (\d+).*>: 0:0$", out, re.M)
        tp = (files or {}).get("trace.ndjson")
        if selftest and module.startswith("Trace") and isinstance(tp, str) and os.path.exists(tp) and not simulate:
            # binding self-test (lib/selftest.py): only meaningful when the real trace was consumed entirely
            nlines = sum(1 for l in open(tp) if l.strip())
            if res["depth"] == nlines + 1:
                import selftest as st
                rejected = {e["line"] for t, e in res["emitted"] if t == "REJECT"}
                self.selftests += st.binding_selftest(self, module, cfg, tp, rejected,
                                                      dict(workers=workers, timeout=timeout, extra=extra, cfg_subst=cfg_subst, heap=heap))
        return res


_EMIT = re.compile(r'^<<"([A-Z]+)", (".*")>>$')


def parse_emitted(out):
    res = []
    for line in out.splitlines():
        m = _EMIT.match(line)
        if not m:
            continue
        try:
            s = json.loads(m.group(2))   # TLA+ string literal escaping is JSON-compatible for \" and \\
            res.append((m.group(1), json.loads(s)))
        except Exception as e:
            raise Infra("cannot parse TLC emission: %s (%s)" % (line[:200], e))
    return res


def write_ndjson(path, rows):
    with open(path, "w") as f:
        for r in rows:
            f.write(json.dumps(r, separators=(",", ":"), sort_keys=True) + "\n")


def read_ndjson(path):
    return [json.loads(l) for l in open(path) if l.strip()]


def sha(s):
    if isinstance(s, str):
        s = s.encode()
    return hashlib.sha256(s).hexdigest()[:16]


# ---------------------------------------------------------------------- known findings
def load_known():
    p = os.path.join(VERIF, "known-findings.json")
    if not os.path.exists(p):
        return {"findings": [], "fixed": []}
    return json.load(open(p))


def finish(run, level, coverage, assumptions, replay_dir_name="replay"):
    """Apply the known-findings filter, write evidence, print verdict lines, return exit code."""
    kf = [f for f in load_known()["findings"] if f["property"] == run.pid]
    known_sigs = {f["signature"]: f for f in kf}
    unknown = []
    seen_known = {}
    if getattr(run, "replay_sig", None):
        run.violations = [v for v in run.violations if v["signature"] == run.replay_sig]
        print("replay: %s" % ("reproduced" if run.violations else "not reproduced on this tree"), flush=True)
    for v in run.violations:
        if v["signature"] in known_sigs:
            seen_known.setdefault(v["signature"], v)
        else:
            unknown.append(v)
    for sig, v in sorted(seen_known.items()):
        print("KNOWN-FINDING: property=%s %s — %s" % (run.pid, sig, known_sigs[sig].get("what", "")), flush=True)
    rc = 0
    # the evidence of the registered checks lives in /verif/evidence; a run against a scratch copy of the repository
    # (bin/seedtest2) is told to put its own elsewhere
    evdir = os.environ.get("VERIF_EVIDENCE_DIR") or os.path.join(VERIF, "evidence")
    os.makedirs(evdir, exist_ok=True)
    repdir = os.path.join(evdir, "replay")
    if unknown:
        os.makedirs(repdir, exist_ok=True)
        rc = 1
        seen = set()
        for v in unknown:
            if v["signature"] in seen:
                continue
            seen.add(v["signature"])
            rp = os.path.join(repdir, "%s-%s.json" % (run.pid, sha(v["signature"])))
            json.dump(dict(property=run.pid, tier=run.tier, seed=run.seed, **v), open(rp, "w"), indent=1, sort_keys=True, default=str)
            print("VIOLATION property=%s replay=%s" % (run.pid, rp), flush=True)
            print("  signature: %s" % v["signature"], flush=True)
            if v.get("detail"):
                print("  detail: %s" % str(v["detail"])[:600], flush=True)
    coverage = dict(coverage)
    coverage["binding_selftest"] = run.selftests
    coverage["known_findings_seen"] = sorted(seen_known)
    coverage["known_findings_listed_not_seen"] = sorted(set(known_sigs) - set(seen_known))
    ev = dict(property_id=run.pid, tier=run.tier, seed=run.seed, level=level, coverage=coverage,
              assumptions=assumptions, wall_s=round(time.time() - run.t0, 2),
              violations=len({v["signature"] for v in unknown}))
    json.dump(ev, open(os.path.join(evdir, run.pid + ".json"), "w"), indent=1, sort_keys=True, default=str)
    print("%s %s tier=%s seed=%d: %s (%d known finding(s), %.0fs)" % (
        "OK" if rc == 0 else "FAIL", run.pid, run.tier, run.seed,
        "property held on everything explored" if rc == 0 else "%d new violation(s)" % ev["violations"],
        len(seen_known), time.time() - run.t0), flush=True)
    return rc
