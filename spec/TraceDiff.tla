--------------------------- MODULE TraceDiff ---------------------------
(***************************************************************************)
(* Trace validation for the diff family.  trace.ndjson holds the events    *)
(* recorded from the real diff.Compare / `swagger diff` binary; every line *)
(* is consumed by exactly one action of the pipeline machine               *)
(* (DiffPipeline), with the logged fields bound to its variables, and the  *)
(* property of the run (Prop) is evaluated on the step.  A step whose      *)
(* observation the specification does not allow is recorded as REJECT      *)
(* (the machine then follows the observation so that the rest of the trace *)
(* is still checked); a line that no action can consume stops the search   *)
(* and the trace is not accepted (harness fault).                          *)
(***************************************************************************)
EXTENDS DiffCases, DiffPipeline, Json

CONSTANT Prop      \* "C12" | "C13" | "C14" | "C15"

Trace == ndJsonDeserialize("trace.ndjson")

VARIABLES l,        \* next line
          cur,      \* the Load event of the current case
          entries,  \* JSON report of the current case (sequence), C15
          nrej
tvars == <<l, cur, entries, nrej, phase, report, ignore, filtered, fmt, bonly, shown, exit>>

Ev == Trace[l]
IsEvent(e) == l <= Len(Trace) /\ Trace[l].ev = e /\ l' = l + 1

Reject(why) ==
  /\ PrintT(<<"REJECT", ToJson([line |-> l, id |-> Ev.id, ev |-> Ev.ev, why |-> why])>>)
  /\ nrej' = nrej + 1
Accept == nrej' = nrej
Judge(ok, why) == IF ok THEN Accept ELSE Reject(why)

EntryBag(es) == BagOfSeq([i \in DOMAIN es |-> [id |-> es[i].id, compat |-> es[i].compat]])
PickBag(es, idx) == BagOfSeq([i \in DOMAIN idx |-> [id |-> es[idx[i]].id, compat |-> es[idx[i]].compat]])
LocCode(es) == [i \in DOMAIN es |-> [loc |-> es[i].loc, code |-> es[i].code]]

TInit ==
  /\ l = 1 /\ cur = [id |-> -1] /\ entries = <<>> /\ nrej = 0
  /\ phase = "idle" /\ report = <<>> /\ ignore = <<>> /\ filtered = <<>>
  /\ fmt = "txt" /\ bonly = FALSE /\ shown = <<>> /\ exit = 0

Idle == /\ phase' = "idle" /\ report' = <<>> /\ ignore' = <<>> /\ filtered' = <<>>
        /\ fmt' = "txt" /\ bonly' = FALSE /\ shown' = <<>> /\ exit' = 0

\* ---- Load: a new case starts (any phase: the previous case may have ended anywhere)
TLoad ==
  /\ IsEvent("Load")
  /\ cur' = Ev /\ entries' = <<>> /\ Idle /\ Accept

TLoadError ==
  /\ IsEvent("LoadError")
  /\ UNCHANGED <<cur, entries, phase, report, ignore, filtered, fmt, bonly, shown, exit>>
  /\ Judge(FALSE, "materialised document does not load")

\* ---- Analyse (in-process diff.Compare, both directions)
AnalyseGood ==
  CASE Prop = "C12" ->
         /\ ~Ev.panicked /\ ~Ev.timedOut
         /\ cur.c.kind \in {"self", "neutral", "identity"} => (Ev.nab = 0 /\ Ev.nba = 0)
    [] Prop = "C13" -> ~Ev.panicked => (MustBreak(cur.c) => Ev.breaking > 0)
    [] Prop = "C14" -> ~Ev.panicked => (Ev.nab = Ev.nba /\ Mirrored(LocCode(Ev.ab), LocCode(Ev.ba)))
    [] OTHER -> TRUE
TAnalyse ==
  /\ IsEvent("Analyse") /\ Ev.id = cur.id /\ phase = "idle"
  /\ Analyse(BagOfSeq([i \in DOMAIN Ev.ab |-> [loc |-> Ev.ab[i].loc, code |-> Ev.ab[i].code, compat |-> Ev.ab[i].compat]]))
  /\ UNCHANGED <<cur, entries>>
  /\ Judge(AnalyseGood, "analysis")

\* ---- Calib: the reference validator's opinion on the witness (two-oracle rule, informative)
TCalib ==
  /\ IsEvent("Calib") /\ Ev.id = cur.id
  /\ UNCHANGED <<cur, entries, phase, report, ignore, filtered, fmt, bonly, shown, exit>>
  /\ Accept

\* ---- Exit of the plain text-format run: no ignore file, everything shown
ExitGood ==
  CASE Prop = "C12" -> /\ ~Ev.crashed
                       /\ cur.c.kind \in {"self", "neutral", "identity"} => Ev.exit = 0
    [] Prop = "C13" -> MustBreak(cur.c) => Ev.exit # 0
    [] Prop = "C15" -> (Ev.exit # 0) <=> BreakingIn(report)
    [] OTHER -> TRUE
TExit ==
  /\ IsEvent("Exit") /\ Ev.id = cur.id /\ phase = "analysed"
  /\ UNCHANGED <<cur, entries, phase, report, ignore, filtered, fmt, bonly, shown, exit>>
  /\ Judge(ExitGood, "exit status of the text run")

JsonExit0 == "json format exits 0 although a non-ignored Breaking difference remains"

\* ---- C15: the JSON report of the CLI becomes the report of the machine
TJsonReport ==
  /\ IsEvent("JsonReport") /\ Ev.id = cur.id
  /\ entries' = Ev.entries
  /\ report' = EntryBag(Ev.entries) /\ phase' = "analysed"
  /\ UNCHANGED <<cur, ignore, filtered, fmt, bonly, shown, exit>>
  /\ Judge(Prop = "C15" => ((Ev.exit # 0) <=> BreakingIn(EntryBag(Ev.entries))),
           IF Ev.exit = 0 THEN JsonExit0 ELSE "exit status of the json run")

TReportError ==
  /\ IsEvent("ReportError")
  /\ UNCHANGED <<cur, entries, phase, report, ignore, filtered, fmt, bonly, shown, exit>>
  /\ Judge(FALSE, "json report unreadable")

\* ---- C15: one CLI run with an ignore file = ReadIgnore . Filter . Report . Exit of the machine.
\* The run is one process, so its four steps are logged as one event and composed here.
RunWhy(flt, shw, ex) ==
  IF Ev.parseErr # "" THEN "report unreadable"
  ELSE IF \E i \in DOMAIN Ev.shown : Ev.shown[i] = 0 THEN "a rendered entry is not an entry of the json report"
  ELSE IF PickBag(entries, Ev.shown) # [d \in Support(shw) |-> shw[d]] THEN "the rendering does not show exactly the non-ignored differences"
  ELSE IF (Ev.exit # 0) # (ex # 0)
    THEN (IF Ev.fmt = "json" /\ Ev.exit = 0 THEN JsonExit0 ELSE "exit status does not match the non-ignored Breaking differences")
  ELSE "ok"
TRun ==
  /\ IsEvent("Run") /\ Ev.id = cur.id /\ phase = "analysed"
  /\ LET ig  == PickBag(entries, Ev.ignore)
         flt == Minus(report, ig)
         shw == Shown(flt, Ev.fmt, Ev.bonly)
         ex  == IF BreakingIn(flt) THEN 1 ELSE 0
     IN /\ ignore' = ig /\ filtered' = flt /\ fmt' = Ev.fmt /\ bonly' = Ev.bonly /\ shown' = shw /\ exit' = ex
        /\ Judge(RunWhy(flt, shw, ex) = "ok", RunWhy(flt, shw, ex))
  /\ UNCHANGED <<cur, entries, phase, report>>

TNext == TLoad \/ TLoadError \/ TAnalyse \/ TCalib \/ TExit \/ TJsonReport \/ TReportError \/ TRun
TSpec == TInit /\ [][TNext]_tvars

Consumed == TLCGet("stats").diameter - 1 = Len(Trace)
=============================================================================
