--------------------------- MODULE MCDiffPipeline ---------------------------
EXTENDS DiffPipeline
MCDiffU == {[id |-> i, compat |-> c] : i \in 1..2, c \in {"Breaking", "NonBreaking", "Warning"}} \ {[id |-> 2, compat |-> "Warning"]}
=============================================================================
