--------------------------- MODULE Determinism ---------------------------
(***************************************************************************)
(* C07: the output of every command is a function of its inputs.           *)
(*                                                                         *)
(* Part A - function-ness (bound to the code by the trace spec):           *)
(*   out[job, target] is assigned by the first run and every later run -   *)
(*   repeated in the same process, in a new process, or concurrent with    *)
(*   other runs - must produce the same value.                             *)
(* Part B - map order: a step that ranges over a map yields its keys in an *)
(*   arbitrary permutation; a pipeline that sorts afterwards has a unique  *)
(*   output, one that does not is multi-valued (negative config).          *)
(* Part C - concurrency: N runs share a template repository guarded by a   *)
(*   mutex; each run works on a clone taken under the mutex; a run that    *)
(*   writes to the shared repository makes another run's output depend on  *)
(*   the interleaving (negative config).                                   *)
(***************************************************************************)
EXTENDS Integers, Sequences, FiniteSets, TLC

CONSTANTS Keys,        \* keys of the map that is ranged over
          Sorted,      \* TRUE: the pipeline sorts after the range
          Runs,        \* concurrent runs
          SharedWrite  \* TRUE: a run customises the SHARED repository instead of its clone (defect)

(* ---------------- Part B ---------------- *)
Perms(S) == {p \in [1..Cardinality(S) -> S] : \A i, j \in DOMAIN p : i # j => p[i] # p[j]}
\* keys are integers here: sorting = the ascending permutation
AscSeq(p) == CHOOSE q \in Perms({p[i] : i \in DOMAIN p}) : \A i, j \in DOMAIN q : i < j => q[i] < q[j]

(* ---------------- Part C ---------------- *)
VARIABLES order,     \* Part B: the permutation the runtime happened to choose, per run
          shared,    \* the shared template repository (a version counter: 0 = as loaded at init)
          lock,      \* holder of the mutex or "free"
          clone,     \* run -> the repository version it cloned ("none" before)
          pc,        \* run -> program counter
          out        \* run -> rendered output
vars == <<order, shared, lock, clone, pc, out>>

Init ==
  /\ order \in [Runs -> Perms(Keys)]
  /\ shared = 0 /\ lock = "free"
  /\ clone = [r \in Runs |-> -1] /\ pc = [r \in Runs |-> "start"] /\ out = [r \in Runs |-> <<>>]

Acquire(r) == pc[r] = "start" /\ lock = "free" /\ lock' = r /\ pc' = [pc EXCEPT ![r] = "locked"] /\ UNCHANGED <<order, shared, clone, out>>
\* EnsureDefaults: ShallowClone of the shared repository under the mutex
Clone(r)   == pc[r] = "locked" /\ clone' = [clone EXCEPT ![r] = shared] /\ pc' = [pc EXCEPT ![r] = "cloned"] /\ UNCHANGED <<order, shared, lock, out>>
Release(r) == pc[r] = "cloned" /\ lock' = "free" /\ pc' = [pc EXCEPT ![r] = "custom"] /\ UNCHANGED <<order, shared, clone, out>>
\* loading custom templates / options: into the run's own clone (or, defect, into the shared repository)
Customise(r) ==
  /\ pc[r] = "custom"
  /\ IF SharedWrite THEN shared' = shared + 1 /\ UNCHANGED clone ELSE UNCHANGED <<shared, clone>>
  /\ pc' = [pc EXCEPT ![r] = "render"] /\ UNCHANGED <<order, lock, out>>
\* rendering: ranges over the map in the order the runtime chose, then (perhaps) sorts; the templates
\* used are those of the clone
Render(r) ==
  /\ pc[r] = "render"
  /\ out' = [out EXCEPT ![r] = <<IF Sorted THEN AscSeq(order[r]) ELSE order[r], clone[r]>>]
  /\ pc' = [pc EXCEPT ![r] = "done"] /\ UNCHANGED <<order, shared, lock, clone>>
Next == \E r \in Runs : Acquire(r) \/ Clone(r) \/ Release(r) \/ Customise(r) \/ Render(r)
Spec == Init /\ [][Next]_vars

\* all runs have the same input here, so: every finished run has the same output, whatever the map
\* order and the interleaving
OutputIsFunctionOfInput == \A a, b \in Runs : pc[a] = "done" /\ pc[b] = "done" => out[a] = out[b]
MutexHeldWhileCloning == \A r \in Runs : pc[r] \in {"locked", "cloned"} => lock = r
=============================================================================
