--------------------------- MODULE TraceYaml ---------------------------
(* Trace validation for C19: one Runs event per case with the canonical-value digests of the files
   written by the four runs (input format x output format) and by the compact run. *)
EXTENDS YamlScalars
Trace == ndJsonDeserialize("trace.ndjson")
VARIABLES l, nrej
tvars == <<l, nrej, doc, outs>>
Ev == Trace[l]
IsEvent(e) == l <= Len(Trace) /\ Trace[l].ev = e /\ l' = l + 1
Reject(why) == PrintT(<<"REJECT", ToJson([line |-> l, why |-> why])>>) /\ nrej' = nrej + 1
Judge(why) == IF why = "ok" THEN nrej' = nrej ELSE Reject(why)
R == Ev.runs      \* sequence of [inFmt, outFmt, compact, exit, digest]
OKRuns == {i \in DOMAIN R : R[i].exit = 0}
Why ==
  IF \E i \in DOMAIN R : R[i].crashed THEN "the command crashed"
  ELSE IF \E i, j \in DOMAIN R : (R[i].exit = 0) # (R[j].exit = 0) THEN "the command succeeds for one rendering / format and fails for another"
  ELSE IF \E i \in OKRuns : R[i].digest = "unreadable" THEN "the written document cannot be loaded back"
  ELSE IF \E i, j \in OKRuns : R[i].inFmt = R[j].inFmt /\ R[i].digest # R[j].digest
    THEN "loading the YAML output does not give the JSON output (same input)"
  ELSE IF \E i, j \in OKRuns : R[i].digest # R[j].digest THEN "the JSON and the YAML rendering of the input give different results"
  ELSE "ok"
TInit == l = 1 /\ nrej = 0 /\ YInit
TRuns ==
  /\ IsEvent("Runs") /\ Judge(Why)
  /\ doc' = Ev.id /\ outs' = [i \in DOMAIN R |-> [inFmt |-> R[i].inFmt, outFmt |-> R[i].outFmt, value |-> R[i].digest]]
TSpec == TInit /\ [][TRuns]_tvars
Consumed == TLCGet("stats").diameter - 1 = Len(Trace)
=============================================================================
