--------------------------- MODULE Security ---------------------------
(***************************************************************************)
(* Security requirements of a Swagger 2.0 operation and their evaluation   *)
(* by a generated server (C06).                                            *)
(*                                                                         *)
(* A requirement is a sequence of alternatives; an alternative is a        *)
(* sequence of scheme names (all must authenticate; <<>> is the anonymous  *)
(* alternative `{}`).  "inherit" stands for an operation without its own   *)
(* `security` key, <<>> for an explicit `security: []`.                    *)
(*                                                                         *)
(* Part 1: the property-level meaning (Satisfied / MustReach / MayReach /  *)
(*         AllowedPrincipals) used by the trace spec.                      *)
(* Part 2: the algorithm of the pinned runtime (RouteAuthenticators.       *)
(*         Authenticate, RouteAuthenticator.Authenticate, Context.         *)
(*         Authorize) step by step, model-checked to refine part 1 - and,  *)
(*         in a negative config, with an authenticator missing from        *)
(*         AuthenticatorsFor, to produce the AND-bypass counterexample a   *)
(*         dropped `case` in server/builder.gotmpl would cause.            *)
(***************************************************************************)
EXTENDS Integers, Sequences, FiniteSets, TLC

\* Generation may be restricted to the operations of some tags (--tags): the operations that are generated
\* enforce exactly what they enforce in the full server - in particular the requirements they INHERIT from the
\* document, whose schemes no selected operation may name itself.
\* autoconf: generate server --implementation-package - the generated auto_configure file wires the
\* authenticators (and handlers) of a backend package: the same requirements are enforced through that wiring
\* regenerated: the server is generated into a target that already holds the server of an EARLIER REVISION of
\* the document (same operations, other requirements): what is enforced afterwards is the current document
Selection == {"all", "tagged", "autoconf", "regenerated"}

CONSTANTS Schemes,        \* scheme names
          Missing         \* schemes whose authenticator is absent from AuthenticatorsFor ({} in the real design)

CredClasses == {"absent", "valid", "invalid", "insufficient"}
\* what the scheme's authenticator answers: not applicable / principal / error
Outcome(c) == CASE c = "absent" -> "na" [] c = "valid" -> "ok" [] OTHER -> "err"

SeqSet(q) == {q[i] : i \in DOMAIN q}

(* ---------------- Part 1: meaning ---------------- *)
Effective(global, own) == IF own = "inherit" THEN (IF global = "none" THEN <<>> ELSE global) ELSE own
Satisfied(alt, creds)  == alt # <<>> /\ \A i \in DOMAIN alt : Outcome(creds[alt[i]]) = "ok"
HasAnon(req)           == \E i \in DOMAIN req : req[i] = <<>>
SomeSatisfied(req, creds) == \E i \in DOMAIN req : Satisfied(req[i], creds)
\* the handler must run (authorizer permitting)
MustReach(req, creds)  == req = <<>> \/ SomeSatisfied(req, creds)
\* the handler may run
MayReach(req, creds)   == MustReach(req, creds) \/ HasAnon(req)
\* named latitude AnonymousWithBadCredentials: only the anonymous alternative is satisfied and the
\* request presents a failing credential - the pinned runtime answers 401, the statement allows both
AllowedPrincipals(req, creds) ==
  UNION {SeqSet(req[i]) : i \in {j \in DOMAIN req : Satisfied(req[j], creds)}}
  \cup (IF HasAnon(req) \/ req = <<>> THEN {"none"} ELSE {})

(* ---------------- Part 2: the runtime's algorithm ---------------- *)
VARIABLES req, creds, pc, ai, si, lastErr, anon, result, princ
avars == <<req, creds, pc, ai, si, lastErr, anon, result, princ>>

Alts1 == {<<>>} \cup {<<s>> : s \in Schemes} \cup {p \in Schemes \X Schemes : p[1] # p[2]}
Reqs  == {<<>>} \cup {<<a>> : a \in Alts1} \cup {p \in Alts1 \X Alts1 : p[1] # p[2]}

AInit ==
  /\ req \in Reqs /\ creds \in [Schemes -> CredClasses]
  /\ pc = "start" /\ ai = 1 /\ si = 1 /\ lastErr = FALSE /\ anon = FALSE /\ result = "pending" /\ princ = "none"

\* Context.Authorize: no authentication when the route has no requirement
Start ==
  /\ pc = "start"
  /\ IF req = <<>> THEN pc' = "done" /\ result' = "reached" ELSE pc' = "alt" /\ result' = result
  /\ UNCHANGED <<req, creds, ai, si, lastErr, anon, princ>>

\* RouteAuthenticators.Authenticate: next alternative
Alt ==
  /\ pc = "alt"
  /\ IF ai > Len(req)
       THEN /\ pc' = "done"
            /\ result' = IF anon /\ ~lastErr THEN "reached" ELSE "denied"
            /\ princ' = "none"                       \* `return true, nil, lastError`
            /\ UNCHANGED <<ai, si, anon>>
       ELSE IF req[ai] = <<>>
         THEN anon' = TRUE /\ ai' = ai + 1 /\ UNCHANGED <<pc, si, result, princ>>
         ELSE pc' = "scheme" /\ si' = 1 /\ princ' = "none" /\ UNCHANGED <<ai, anon, result>>
  /\ UNCHANGED <<req, creds, lastErr>>

\* RouteAuthenticator.Authenticate: one scheme of the current alternative
Scheme ==
  /\ pc = "scheme"
  /\ LET alt == req[ai] IN
     IF si > Len(alt)
       THEN \* every scheme answered with a principal (or was skipped): the alternative passes
            IF princ = "none"                 \* usr == nil: RouteAuthenticators continues
              THEN pc' = "alt" /\ ai' = ai + 1 /\ UNCHANGED <<si, lastErr, result, princ>>
              ELSE pc' = "done" /\ result' = "reached" /\ UNCHANGED <<ai, si, lastErr, princ>>
       ELSE LET s == alt[si] IN
            IF s \in Missing                  \* `if authenticator, ok := ra.Authenticator[scheme]; ok`
              THEN si' = si + 1 /\ UNCHANGED <<pc, ai, lastErr, result, princ>>
            ELSE IF Outcome(creds[s]) = "na"
              THEN pc' = "alt" /\ ai' = ai + 1 /\ princ' = "none" /\ UNCHANGED <<si, lastErr, result>>
            ELSE IF Outcome(creds[s]) = "err"
              THEN pc' = "alt" /\ ai' = ai + 1 /\ lastErr' = TRUE /\ princ' = "none" /\ UNCHANGED <<si, result>>
            ELSE si' = si + 1 /\ princ' = s /\ UNCHANGED <<pc, ai, lastErr, result>>
  /\ UNCHANGED <<req, creds, anon>>

ANext == Start \/ Alt \/ Scheme
ASpec == AInit /\ [][ANext]_avars /\ WF_avars(ANext)

Done == pc = "done"
Reached == result = "reached"
\* refinement of part 1 by the algorithm
OnlyIfSatisfied  == Done /\ Reached => MayReach(req, creds)
IfSatisfied      == Done /\ SomeSatisfied(req, creds) => Reached
PrincipalAllowed == Done /\ Reached => princ \in AllowedPrincipals(req, creds)
NoAuthServed     == Done /\ req = <<>> => Reached
DeniedOtherwise  == Done /\ ~MayReach(req, creds) => ~Reached
Terminates       == <>Done
=============================================================================
