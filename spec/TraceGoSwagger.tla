--------------------------- MODULE TraceGoSwagger ---------------------------
(***************************************************************************)
(* Trace validation of the workspace frame: every event is one real CLI    *)
(* command run by `vh frame-drive` in one workspace, followed by the       *)
(* abstraction of every file of the workspace.  Each event takes the       *)
(* GoSwagger action of the same name; what was observed is compared with   *)
(* the state the action yields.  A mismatch is recorded with the PROPERTY  *)
(* it contradicts (C10 C11 C12 C13 C19) or as FRAME (a composition rule of *)
(* the frame that no listed property states); the behaviour continues with *)
(* the model's state, and an Init event re-synchronises.                   *)
(*                                                                         *)
(* Finer than the frame: cids (content ids: JSON-equal documents have one  *)
(* id) and fn, the graph of each spec->spec command as observed so far -   *)
(* a command is a FUNCTION of the document, not of its rendering (C19).    *)
(***************************************************************************)
EXTENDS GoSwagger
Trace == ndJsonDeserialize("trace.ndjson")
VARIABLES l, nrej, cids, fn
tvars == <<l, nrej, cids, fn, docs, target, embOrig, embFlat, report, exit, hist>>
Ev == Trace[l]
IsEvent(e) == l <= Len(Trace) /\ Trace[l].ev = e /\ l' = l + 1
Reject(prop, why) == PrintT(<<"REJECT", ToJson([line |-> l, prop |-> prop, why |-> why])>>) /\ nrej' = nrej + 1
Judge(v) == IF v = <<>> THEN nrej' = nrej ELSE Reject(v[1], v[2])
Obs(n) == Ev.docs[n]
ObsDoc(n) == IF Obs(n).present THEN Doc(Obs(n).m, Obs(n).fmt, Obs(n).layout) ELSE NoDoc
Changed == {Ev.changed[i] : i \in DOMAIN Ev.changed}

TInit0 ==
  /\ l = 1 /\ nrej = 0 /\ cids = [n \in DocNames |-> "none"] /\ fn = {}
  /\ docs = [n \in DocNames |-> NoDoc]
  /\ target = [models |-> Nothing, server |-> Nothing, client |-> Nothing, user |-> {}]
  /\ embOrig = Nothing /\ embFlat = "none" /\ report = [kind |-> "none"] /\ exit = 0 /\ hist = <<[a |-> "init"]>>

\* a new workspace: the state is what the harness put there
TReset ==
  /\ IsEvent("Init")
  /\ docs' = [n \in DocNames |-> ObsDoc(n)]
  /\ cids' = [n \in DocNames |-> Obs(n).cid]
  /\ fn' = fn                         \* the graph of a command does not depend on the workspace
  /\ target' = [models |-> Nothing, server |-> Nothing, client |-> Nothing, user |-> {}]
  /\ embOrig' = Nothing /\ embFlat' = "none" /\ report' = [kind |-> "none"] /\ exit' = 0 /\ hist' = <<[a |-> "init"]>>
  /\ Judge(IF \E n \in DocNames : Obs(n).present /\ Obs(n).m \notin Meanings
             THEN <<"FRAME", "an initial document does not load with the meaning it was written with">> ELSE <<>>)

TransformWhy(cmd, src, dst, f) ==
  IF Ev.exit # 0 THEN <<"FRAME", cmd \o " fails on a valid document">>
  ELSE IF ~Obs(dst).present \/ Obs(dst).cid = "unreadable" THEN <<"FRAME", cmd \o " wrote no loadable document">>
  ELSE IF Obs(dst).fmt # f THEN <<"C19", cmd \o ": the output is not in the requested format">>
  ELSE IF Ev.exitAlt # 0 \/ Ev.cidAlt # Obs(dst).cid
    THEN <<"C19", cmd \o ": the JSON output and the YAML output for one input are not the same document">>
  ELSE IF \E t \in fn : t[1] = cmd /\ t[2] = cids[src] /\ t[3] # Obs(dst).cid
    THEN <<"C19", cmd \o ": two renderings of one document give different results">>
  ELSE IF Obs(dst).m # docs'[dst].meaning THEN <<"FRAME", cmd \o " changes what the document describes">>
  \* idempotence: flattening (expanding) what the same command produced gives the same document back
  ELSE IF cmd \in {"flatten", "expand"} /\ (\E t \in fn : t[1] = cmd /\ t[3] = cids[src]) /\ Obs(dst).cid # cids[src]
    THEN <<"FRAME", cmd \o " is not idempotent">>
  ELSE IF Obs(dst).layout # docs'[dst].layout THEN <<"FRAME", cmd \o ": unexpected $ref layout of the output">>
  ELSE IF Changed # {} THEN <<"FRAME", cmd \o " modified a document it was not asked to write">>
  ELSE IF ~Ev.userOK THEN <<"C11", cmd \o " modified a file of the user in the generation target">>
  ELSE <<>>
TTransform ==
  /\ IsEvent("Transform")
  /\ LET cmd == Ev.cmd  src == Ev.src  dst == Ev.dst  f == Ev.fmt IN
     /\ \/ cmd = "flatten" /\ Flatten(src, dst, f)
        \/ cmd = "expand" /\ Expand(src, dst, f)
        \/ cmd = "mixin" /\ Mixin(src, dst, f)
     /\ cids' = [cids EXCEPT ![dst] = Obs(dst).cid]
     /\ fn' = fn \cup {<<cmd, cids[src], Obs(dst).cid>>}
     /\ Judge(TransformWhy(cmd, src, dst, f))

GenerateWhy(kind, src) ==
  IF Ev.exit # 0 THEN <<"FRAME", "generate " \o kind \o " fails on a valid document">>
  ELSE IF kind = "server" /\ Ev.embOrigCid # cids[src]
    THEN <<"C10", "the original document embedded in the generated server is not JSON-equal to the input document">>
  ELSE IF kind = "server" /\ Ev.embFlatM # embFlat'
    THEN <<"C10", "the flattened document embedded in the generated server does not describe the API of the input document">>
  ELSE IF ~Ev.userOK THEN <<"C11", "generate " \o kind \o " modified or removed a file the user added to the target">>
  ELSE IF Changed # {} THEN <<"FRAME", "generate " \o kind \o " modified a document of the workspace">>
  ELSE <<>>
TGenerate ==
  /\ IsEvent("Generate") /\ Generate(Ev.kind, Ev.src)
  /\ UNCHANGED <<cids, fn>>
  /\ Judge(GenerateWhy(Ev.kind, Ev.src))

TUserAdd == IsEvent("UserAdd") /\ UserAddsFile(Ev.u) /\ UNCHANGED <<cids, fn>> /\ Judge(<<>>)

DiffWhy(a, b) ==
  IF cids[a] = cids[b] /\ (~Ev.reportEmpty \/ Ev.exit # 0)
    THEN <<"C12", "two renderings of one document are reported as different">>
  ELSE IF report'.kind = "empty" /\ (~Ev.reportEmpty \/ Ev.exit # 0)
    THEN <<"FRAME", "a document and its flattened / mixed-in copy are reported as different">>
  ELSE IF report'.kind = "diff" /\ <<docs[a].meaning, docs[b].meaning>> \in Breaks /\ (Ev.reportEmpty \/ Ev.exit = 0)
    THEN <<"C13", "a required parameter was added and the command reports nothing or exits 0">>
  ELSE IF report'.kind = "diff" /\ Ev.reportEmpty THEN <<"FRAME", "different documents, empty report">>
  ELSE IF Changed # {} \/ ~Ev.userOK THEN <<"FRAME", "diff modified a file">>
  ELSE <<>>
TDiff ==
  /\ IsEvent("Diff") /\ Diff(Ev.x, Ev.y)
  /\ UNCHANGED <<cids, fn>>
  /\ Judge(DiffWhy(Ev.x, Ev.y))

ValidateWhy(src) ==
  IF Ev.exit # 0 THEN <<"FRAME", "validate rejects a document that is valid, or that a command of the toolkit derived from a valid one">>
  ELSE IF Changed # {} \/ ~Ev.userOK THEN <<"FRAME", "validate modified a file">>
  ELSE <<>>
TValidate ==
  /\ IsEvent("Validate") /\ Validate(Ev.src)
  /\ UNCHANGED <<cids, fn>>
  /\ Judge(ValidateWhy(Ev.src))

TNext == TReset \/ TTransform \/ TGenerate \/ TUserAdd \/ TDiff \/ TValidate
TSpec == TInit0 /\ [][TNext]_tvars
Consumed == TLCGet("stats").diameter - 1 = Len(Trace)
=============================================================================
