--------------------------- MODULE GenDiff ---------------------------
(* GEN config for C13/C14/C15: one initial state per case descriptor; Emit prints the case with its
   two abstract documents (materialised by the harness), TLC's verdict MustBreak and a witness. *)
EXTENDS DiffCases, Json, Randomization
CONSTANTS Sample,         \* 0 = whole space, k > 0 = RandomSubset(k, CaseSpace)
          WithPairs       \* include the two-edit cases
VARIABLE c
Space == IF WithPairs THEN CaseSpace ELSE CaseSpace \ Leaf2Cases
Init == c \in (IF Sample = 0 THEN Space ELSE RandomSubset(Sample, Space))
Next == UNCHANGED c
Emit ==
  LET ab == CaseAB(c) IN
  PrintT(<<"CASE", ToJson([c |-> c, sig |-> Signature(c), A |-> ab.A, B |-> ab.B,
                          mustBreak |-> MustBreak(c), witness |-> SomeWitness(c),
                          nreqs |-> Cardinality(ab.reqs)])>>)
\* design-level sanity, checked on every case (MC):
\*  - an identity case never must-break; a case and its swap are not both request-breaking through
\*    the same witness set unless the edit is incomparable (pattern change)
Sane ==
  /\ c.kind = "identity" => ~MustBreak(c)
  /\ MirrorInvolutive
=============================================================================
