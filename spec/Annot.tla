--------------------------- MODULE Annot ---------------------------
(***************************************************************************)
(* `generate spec` (C17).                                                  *)
(*                                                                         *)
(* Part A - the line-oriented annotation parser as a state machine over    *)
(* classified comment lines (sectionedParser / yamlSpecScanner): every     *)
(* line is consumed exactly once, the machine always terminates, and the   *)
(* title/description split is defined for every comment.  TLC explores all *)
(* comments of up to MaxLines lines; the same line-class sequences are     *)
(* materialised into real comments and fed to the real scanner, which      *)
(* must not crash on them.                                                 *)
(*                                                                         *)
(* Part B - annotated programs built from the documented grammar and the   *)
(* document they denote (ExpectedOps / ExpectedModels); the observed       *)
(* document must be valid Swagger 2.0 and contain every expected element.  *)
(***************************************************************************)
EXTENDS Integers, Sequences, FiniteSets, TLC

(* ---------------- Part A ---------------- *)
CONSTANT MaxLines
LineClasses == {"annotation", "text", "blank", "tag_single", "tag_block", "tag_item", "yaml_fence", "indented", "garbage_colon"}

VARIABLES lines, pos, mode, title, desc, tagsSeen
avars == <<lines, pos, mode, title, desc, tagsSeen>>
AInit ==
  /\ lines \in UNION {[1..n -> LineClasses] : n \in 0..MaxLines}
  /\ pos = 1 /\ mode = "header" /\ title = <<>> /\ desc = <<>> /\ tagsSeen = 0
\* one step = one line
Step ==
  /\ pos <= Len(lines)
  /\ LET c == lines[pos] IN
     /\ mode' = CASE c = "yaml_fence" -> (IF mode = "yaml" THEN "body" ELSE "yaml")
                  [] mode = "yaml" -> "yaml"
                  [] c = "annotation" -> "body"
                  [] c = "tag_block" -> "tag"
                  [] c = "tag_single" -> "body"
                  [] mode = "tag" /\ c \in {"tag_item", "indented"} -> "tag"
                  [] mode = "tag" /\ c = "blank" -> "body"
                  [] mode = "header" /\ c = "blank" -> (IF title = <<>> THEN "header" ELSE "body")
                  [] OTHER -> mode
     /\ title' = IF mode = "header" /\ c \in {"text", "garbage_colon", "indented"} THEN Append(title, pos) ELSE title
     /\ desc' = IF mode = "body" /\ c \in {"text", "garbage_colon", "indented", "tag_item"} THEN Append(desc, pos) ELSE desc
     /\ tagsSeen' = IF c \in {"tag_single", "tag_block"} /\ mode # "yaml" THEN tagsSeen + 1 ELSE tagsSeen
  /\ pos' = pos + 1 /\ UNCHANGED lines
ASpec == AInit /\ [][Step]_avars /\ WF_avars(Step)
ADone == pos = Len(lines) + 1
\* every line index is used at most once, indices stay inside the comment
InBounds == /\ pos \in 1..(Len(lines) + 1)
            /\ \A i \in DOMAIN title : title[i] \in DOMAIN lines
            /\ \A i \in DOMAIN desc : desc[i] \in DOMAIN lines
            /\ \A i \in DOMAIN title : \A j \in DOMAIN desc : title[i] # desc[j]
Terminates == <>ADone

(* ---------------- Part B ---------------- *)
\* menus of the documented grammar (docs/reference/annotations/*.md)
Methods == {"GET", "POST", "PUT", "PATCH", "DELETE", "HEAD", "OPTIONS"}
\* generate spec -i <input>: no input; an input with unrelated paths and definitions; an input that already
\* declares the annotated operation (same path, method and id), to which the annotations add their parameters
\* self: the document produced by a first scan is given back as input of a second one (idempotence: nothing
\* is duplicated, the result is still valid and still contains everything)
MergeModes == {"none", "unrelated", "same_op", "self"}
PathsM  == {"/pets", "/pets/{id}"}
TagSets == {<<>>, <<"pets">>, <<"pets", "users">>}
RespMaps == {"none", "default_only", "ok_and_default", "three"}
\* inline_params: a `Parameters:` block inside the swagger:route comment (+ name: ... in: ... type: ...)
\* companion_operation: the FILE that carries the swagger:route also carries a swagger:operation annotation (YAML body)
\* for another operation: both kinds of annotation in one file, both operations in the document
Blocks  == {"consumes", "produces", "schemes", "deprecated", "security", "summary", "inline_params", "companion_operation"}
Companion == [method |-> "GET", path |-> "/companions", id |-> "listCompanions", tags |-> <<"companions">>,
              param |-> [name |-> "climit", loc |-> "query", type |-> "integer", required |-> FALSE]]
\* three of them: the first declares an enum and a default, the second bounds, the third nothing - what one
\* parameter of the block declares says nothing about the next
InlineParams == {[name |-> "isort", loc |-> "query", type |-> "string", required |-> FALSE, enum |-> <<"asc", "desc">>, default |-> "asc"],
                 [name |-> "ilimit", loc |-> "query", type |-> "integer", format |-> "int32", required |-> FALSE, minimum |-> 1, maximum |-> 50],
                 [name |-> "ioffset", loc |-> "query", type |-> "integer", required |-> FALSE]}
\* the constraint keywords of a parameter as the harness abstracts them
ConstraintKeys == {"enum", "default", "minimum", "maximum", "minLength", "maxLength", "minItems", "itemsMinLength", "itemsMinimum", "itemsMaximum"}
ParamKinds == {"q_string", "q_int_bounds", "q_strings_items", "q_ptr_items", "path_int", "header_str_len", "body_model", "form_bool", "q_required"}
Spellings == {"long", "short"}          \* "Minimum: 1" vs "min: 1", "Required:" vs "required:"

\* one operation of the program
Op(m, p, tg, id, rs, bl, pk, sp) == [method |-> m, path |-> p, tags |-> tg, id |-> id, resp |-> rs, blocks |-> bl, params |-> pk, spell |-> sp]

\* a name in a Responses: block denotes the swagger:response of that name - also when a swagger:model
\* has the same name (validationError is both); the document refers to it as #/responses/<name>
RespRef(n) == "#/responses/" \o n
RespOf(r) ==
  CASE r = "none" -> <<>>
    [] r = "default_only" -> [default |-> RespRef("genericError")]
    [] r = "ok_and_default" -> [default |-> RespRef("genericError"), r200 |-> RespRef("petResponse")]
    [] r = "three" -> [default |-> RespRef("genericError"), r200 |-> RespRef("petResponse"), r422 |-> RespRef("validationError")]

ParamOf(k) ==
  CASE k = "q_string"        -> [name |-> "q", loc |-> "query", type |-> "string", required |-> FALSE]
    [] k = "q_int_bounds"    -> [name |-> "limit", loc |-> "query", type |-> "integer", format |-> "int32", required |-> FALSE, minimum |-> 1, maximum |-> 100]
    [] k = "q_strings_items" -> [name |-> "tags", loc |-> "query", type |-> "array", required |-> FALSE, itemsType |-> "string", itemsMinLength |-> 2, collectionFormat |-> "pipes", minItems |-> 1]
    \* a slice of POINTERS with validations at items depth: the pointer is not a level of nesting
    [] k = "q_ptr_items"     -> [name |-> "counts", loc |-> "query", type |-> "array", required |-> FALSE, itemsType |-> "integer", itemsMinimum |-> 3, itemsMaximum |-> 9]
    [] k = "path_int"        -> [name |-> "id", loc |-> "path", type |-> "integer", format |-> "int64", required |-> TRUE]
    [] k = "header_str_len"  -> [name |-> "X-Trace", loc |-> "header", type |-> "string", required |-> FALSE, minLength |-> 3, maxLength |-> 10]
    [] k = "body_model"      -> [name |-> "pet", loc |-> "body", required |-> TRUE, ref |-> "pet"]
    [] k = "form_bool"       -> [name |-> "flag", loc |-> "formData", type |-> "boolean", required |-> FALSE]
    [] k = "q_required"      -> [name |-> "must", loc |-> "query", type |-> "string", required |-> TRUE]

\* what the document must say about an operation
ExpectedOp(o) ==
  [method |-> o.method, path |-> o.path, id |-> o.id, tags |-> o.tags, responses |-> RespOf(o.resp),
   consumes |-> IF "consumes" \in o.blocks THEN <<"application/json", "application/xml">> ELSE <<>>,
   produces |-> IF "produces" \in o.blocks THEN <<"application/json">> ELSE <<>>,
   schemes  |-> IF "schemes" \in o.blocks THEN <<"http", "https">> ELSE <<>>,
   deprecated |-> "deprecated" \in o.blocks,
   params |-> {ParamOf(k) : k \in o.params} \cup (IF "inline_params" \in o.blocks THEN InlineParams ELSE {})]

\* model menu
ModelKinds == {"plain", "validated", "allof", "strfmt", "ignored_field", "enum", "nested", "named_like_response"}
ExpectedModel(k) ==
  CASE k = "plain"     -> [name |-> "pet", props |-> {"id", "name"}, required |-> {"id"}]
    [] k = "validated" -> [name |-> "validated", props |-> {"count", "label"}, required |-> {}]
    [] k = "allof"     -> [name |-> "composed", props |-> {}, required |-> {}]
    [] k = "strfmt"    -> [name |-> "stamped", props |-> {"when", "id"}, required |-> {}]
    [] k = "ignored_field" -> [name |-> "partial", props |-> {"shown"}, required |-> {}]
    [] k = "enum"      -> [name |-> "colored", props |-> {"color"}, required |-> {}]
    [] k = "nested"    -> [name |-> "outer", props |-> {"inner"}, required |-> {}]
    [] k = "named_like_response" -> [name |-> "validationError", props |-> {"code"}, required |-> {}]

\* observed operation record o2 (same shape, built by the harness from the scanned document)
ParamMatches(e, ps) == \E p \in ps : \A k \in DOMAIN e : k \in DOMAIN p /\ p[k] = e[k]
OpSubsumed(e, o2) ==
  /\ o2.id = e.id /\ o2.tags = e.tags
  /\ \A c \in DOMAIN e.responses : c \in DOMAIN o2.responses /\ o2.responses[c] = e.responses[c]
  /\ (e.consumes # <<>> => o2.consumes = e.consumes) /\ (e.produces # <<>> => o2.produces = e.produces)
  /\ (e.schemes # <<>> => o2.schemes = e.schemes) /\ o2.deprecated = e.deprecated
  /\ \A p \in e.params : ParamMatches(p, {o2.params[i] : i \in DOMAIN o2.params})
OpWhy(e, o2) ==
  IF o2.id # e.id THEN "operation id"
  ELSE IF o2.tags # e.tags THEN "tags"
  ELSE IF \E c \in DOMAIN e.responses : c \notin DOMAIN o2.responses \/ o2.responses[c] # e.responses[c] THEN "responses"
  ELSE IF e.consumes # <<>> /\ o2.consumes # e.consumes THEN "consumes"
  ELSE IF e.produces # <<>> /\ o2.produces # e.produces THEN "produces"
  ELSE IF e.schemes # <<>> /\ o2.schemes # e.schemes THEN "schemes"
  ELSE IF o2.deprecated # e.deprecated THEN "deprecated"
  ELSE IF \E p \in e.params : ~ParamMatches(p, {o2.params[i] : i \in DOMAIN o2.params}) THEN "parameters"
  \* "with the declared ... constraints": the parameter of the document carries no constraint its declaration lacks
  ELSE IF \E p \in e.params : \E i \in DOMAIN o2.params :
            o2.params[i].name = p.name /\ o2.params[i].loc = p.loc /\ ~((DOMAIN o2.params[i]) \cap ConstraintKeys \subseteq DOMAIN p)
    THEN "parameters: a constraint that was not declared"
  ELSE "ok"
=============================================================================
