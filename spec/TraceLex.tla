--------------------------- MODULE TraceLex ---------------------------
(* Trace validation for C09: every Inject event is one generation of a document whose free text at one
   site is a break-out payload derived from GoLex, compared with the generation of the neutral document. *)
EXTENDS Integers, Sequences, TLC, Json
Trace == ndJsonDeserialize("trace.ndjson")
VARIABLES l, nrej
tvars == <<l, nrej>>
Ev == Trace[l]
IsEvent(e) == l <= Len(Trace) /\ Trace[l].ev = e /\ l' = l + 1
Reject(why) == PrintT(<<"REJECT", ToJson([line |-> l, why |-> why])>>) /\ nrej' = nrej + 1
Judge(why) == IF why = "ok" THEN nrej' = nrej ELSE Reject(why)
Why ==
  IF Ev.genExit # 0 THEN (IF Ev.errorPrinted THEN "ok" ELSE "generation fails without a diagnostic")
  ELSE IF Ev.parseErrors > 0 THEN "generation succeeded but a generated file is not valid Go"
  ELSE IF ~Ev.sameFiles THEN "free text changes the set of generated files"
  ELSE IF ~Ev.astEqual THEN "free text from the spec changes the declarations / statements of a generated file"
  ELSE "ok"
TInit == l = 1 /\ nrej = 0
TInject == IsEvent("Inject") /\ Judge(Why)
TNeutral == IsEvent("Neutral") /\ Judge(IF Ev.genExit = 0 THEN "ok" ELSE "the neutral document cannot be generated")
TSpec == TInit /\ [][TInject \/ TNeutral]_tvars
Consumed == TLCGet("stats").diameter - 1 = Len(Trace)
=============================================================================
