--------------------------- MODULE TraceC04 ---------------------------
(* Trace validation for C04: every Call event is one invocation of a generated client method against
   the generated server of the same document, in one process. *)
EXTENDS Request, Json
Trace == ndJsonDeserialize("trace.ndjson")
VARIABLES l, nrej
tvars == <<l, nrej>>
Ev == Trace[l]
IsEvent(e) == l <= Len(Trace) /\ Trace[l].ev = e /\ l' = l + 1
Reject(why) == PrintT(<<"REJECT", ToJson([line |-> l, why |-> why])>>) /\ nrej' = nrej + 1
Judge(why) == IF why = "ok" THEN nrej' = nrej ELSE Reject(why)

\* ---- request half: the value given to the client is the value handed to the handler
Got == Val(Ev.received)
ParamWhy ==
  IF Ev.clientPanic THEN "the generated client panicked"
  ELSE IF Ev.noMethod THEN "the generated client has no method for the operation"
  ELSE IF ~Ev.reached THEN "a call with spec-conforming parameter values does not reach the handler"
  ELSE IF Ev.hasValue /\ ("p" \notin DOMAIN Got \/ Got["p"] # Ev.sent)
    THEN "the handler receives a value different from the one given to the client"
  ELSE IF ~Ev.hasValue /\ "p" \in DOMAIN Got /\ ~Has(Ev.p, "default") /\ ~IsZeroish(Got["p"])
    THEN "the handler receives a value although none was given to the client"
  ELSE "ok"

\* ---- response half
R == Ev.result
RespWhy ==
  LET cls == Class(Ev.L, Ev.code)
      pay == PayloadOf(Ev.L, Ev.code)
      hdr == HeadersOf(Ev.L, Ev.code) IN
  IF Ev.clientPanic THEN "the generated client panicked"
  ELSE IF Ev.noMethod THEN "the generated client has no method for the operation"
  ELSE IF ~Ev.reached THEN "the call does not reach the handler"
  ELSE IF Ev.kind \notin cls.kinds THEN "status code returned as the wrong kind (result vs error)"
  ELSE IF R.code # Ev.code THEN "the returned value does not carry the status code of the response"
  ELSE IF R.generic /\ ~cls.genericOK THEN "a declared response is returned as a generic API error"
  ELSE IF ~R.generic /\ ~cls.typed THEN "an undeclared status code is returned as a typed response"
  ELSE IF pay # Null /\ (~R.hasPayload \/ R.payload # pay) THEN "the payload returned by the client differs from the payload of the response"
  ELSE IF ~R.generic /\ \E h \in DOMAIN hdr : h \notin DOMAIN R.headers \/ R.headers[h] # hdr[h]
    THEN "a header value returned by the client differs from the header of the response"
  ELSE "ok"

TInit == l = 1 /\ nrej = 0
TParam == IsEvent("ParamCall") /\ Judge(ParamWhy)
TResp == IsEvent("RespCall") /\ Judge(RespWhy)
TServer == IsEvent("Server") /\ Judge("ok")
TNext == TParam \/ TResp \/ TServer
TSpec == TInit /\ [][TNext]_tvars
Consumed == TLCGet("stats").diameter - 1 = Len(Trace)
=============================================================================
