--------------------------- MODULE TraceModels ---------------------------
(***************************************************************************)
(* Trace validation for the generated-model family.  The life cycle        *)
(*   Generate -> Build -> (Decode ; Validate ; Encode ; Decode ; Encode)*  *)
(* is a small state machine; every Model event is one execution of the     *)
(* generated code on one (definition, document) pair and is judged with    *)
(* the operators of JsonSchema on the schema of ModelCases:                *)
(*   C02  accept \in AllowedVerdicts(defs, schema, doc)                    *)
(*   C05  Valid(doc) => RoundTripAllowed(schema, doc, out1) /\ out2 = out1 *)
(***************************************************************************)
EXTENDS ModelCases, Json

CONSTANT Prop
Trace == ndJsonDeserialize("trace.ndjson")

VARIABLES l, phase, nrej
tvars == <<l, phase, nrej>>
Ev == Trace[l]
IsEvent(e) == l <= Len(Trace) /\ Trace[l].ev = e /\ l' = l + 1
Reject(why, extra) ==
  /\ PrintT(<<"REJECT", ToJson([line |-> l, why |-> why, valid |-> extra])>>)
  /\ nrej' = nrej + 1
Judge(why, extra) == IF why = "ok" THEN nrej' = nrej ELSE Reject(why, extra)

TInit == l = 1 /\ phase = "init" /\ nrej = 0

TGenerate ==
  /\ IsEvent("Generate") /\ phase = "init"
  /\ phase' = IF Ev.exit = 0 THEN "generated" ELSE "failed"
  /\ Judge("ok", FALSE)
TBuild ==
  /\ IsEvent("Build") /\ phase = "generated"
  /\ phase' = IF Ev.ok THEN "built" ELSE "failed"
  /\ Judge(IF Ev.ok THEN "ok" ELSE "generation succeeded but the generated package does not build", FALSE)

Schema == DefSchema(Ev.def)
Accept == ~Ev.decodeErr /\ ~Ev.validateErr

WhyC02 ==
  IF Ev.missing THEN "no generated type carries the definition"
  ELSE IF HasNumX(Ev.doc) THEN "ok"
  ELSE IF Accept \in AllowedVerdicts(AllDefs, Schema, Ev.doc) THEN "ok"
  ELSE IF Accept THEN "accepts an invalid document" ELSE "rejects a valid document"

WhyC05 ==
  IF Ev.missing THEN "no generated type carries the definition"
  ELSE IF ~Valid(AllDefs, Schema, Ev.doc) \/ HasNull(Ev.doc) THEN "ok"      \* C05 quantifies over valid documents
  ELSE IF Ev.decodeErr THEN "ok"                                          \* a C02 matter
  ELSE IF ~Ev.hasOut THEN "a valid document cannot be re-encoded and re-decoded"
  ELSE IF HasNumX(Ev.out1) THEN "a number changed in the round trip"
  ELSE IF ~RoundTripAllowed(AllDefs, Schema, Ev.doc, Ev.out1) THEN "a declared value is lost, changed or added by decode/encode"
  ELSE IF Ev.out2 # Ev.out1 THEN "encoding the re-decoded output does not reproduce it"
  ELSE "ok"

TModel ==
  /\ IsEvent("Model") /\ phase = "built"
  /\ UNCHANGED phase
  /\ Judge(IF Prop = "C02" THEN WhyC02 ELSE WhyC05, Valid(AllDefs, Schema, Ev.doc))

TNext == TGenerate \/ TBuild \/ TModel
TSpec == TInit /\ [][TNext]_tvars
Consumed == TLCGet("stats").diameter - 1 = Len(Trace)
=============================================================================
