--------------------------- MODULE TraceModels ---------------------------
(***************************************************************************)
(* Trace validation for the generated-model family.  The life cycle        *)
(*   Generate -> Build -> (Decode ; Validate ; Encode ; Decode ; Encode)*  *)
(* is a small state machine; every Model event is one execution of the     *)
(* generated code on one (definition, document) pair and is judged with    *)
(* the operators of JsonSchema on the schema of ModelCases:                *)
(*   C02  accept \in AllowedVerdicts(defs, schema, doc)                    *)
(*   C05  Valid(doc) => RoundTripAllowed(schema, doc, out1) /\ out2 = out1 *)
(***************************************************************************)
EXTENDS ModelCases, Json

CONSTANT Prop
Trace == ndJsonDeserialize("trace.ndjson")

VARIABLES l, phase, nrej, sdefs
tvars == <<l, phase, nrej, sdefs>>
Ev == Trace[l]
IsEvent(e) == l <= Len(Trace) /\ Trace[l].ev = e /\ l' = l + 1
Reject(why, extra) ==
  /\ PrintT(<<"REJECT", ToJson([line |-> l, why |-> why, valid |-> extra])>>)
  /\ nrej' = nrej + 1
Judge(why, extra) == IF why = "ok" THEN nrej' = nrej ELSE Reject(why, extra)

TInit == l = 1 /\ phase = "init" /\ nrej = 0 /\ sdefs = <<>>

TGenerate ==
  /\ IsEvent("Generate") /\ phase = "init"
  /\ phase' = IF Ev.exit = 0 THEN "generated" ELSE "failed"
  /\ UNCHANGED sdefs
  /\ Judge("ok", FALSE)
TBuild ==
  /\ IsEvent("Build") /\ phase = "generated"
  /\ phase' = IF Ev.ok THEN "built" ELSE "failed"
  /\ UNCHANGED sdefs
  /\ Judge(IF Ev.ok THEN "ok" ELSE "generation succeeded but the generated package does not build", FALSE)

Schema == DefSchema(Ev.def)
Accept == ~Ev.decodeErr /\ ~Ev.validateErr

WhyC02 ==
  IF Ev.missing THEN "no generated type carries the definition"
  ELSE IF HasNumX(Ev.doc) THEN "ok"
  ELSE IF Accept \in AllowedVerdicts(AllDefs, Schema, Ev.doc) THEN "ok"
  ELSE IF Accept THEN "accepts an invalid document" ELSE "rejects a valid document"

WhyC05 ==
  IF Ev.missing THEN "no generated type carries the definition"
  ELSE IF ~Valid(AllDefs, Schema, Ev.doc) \/ HasNull(Ev.doc) THEN "ok"      \* C05 quantifies over valid documents
  ELSE IF Ev.decodeErr THEN "a valid document cannot be decoded into the generated type"
  ELSE IF ~Ev.hasOut THEN "a valid document cannot be re-encoded and re-decoded"
  ELSE IF HasNumX(Ev.out1) THEN "a number changed in the round trip"
  ELSE IF ~RoundTripAllowed(AllDefs, Schema, Ev.doc, Ev.out1) THEN "a declared value is lost, changed or added by decode/encode"
  ELSE IF Ev.out2 # Ev.out1 THEN "encoding the re-decoded output does not reproduce it"
  ELSE "ok"

TModel ==
  /\ IsEvent("Model") /\ phase = "built"
  /\ UNCHANGED <<phase, sdefs>>
  /\ Judge(IF Prop = "C02" THEN WhyC02 ELSE WhyC05, Valid(AllDefs, Schema, Ev.doc))

\* ---- C18: the scanner is run on the generated package
TScanRun ==
  /\ IsEvent("ScanRun") /\ phase \in {"generated", "built"}
  /\ phase' = IF Ev.ok THEN "scanned" ELSE "failed"
  /\ sdefs' = IF Ev.ok THEN Ev.defs ELSE <<>>
  /\ Judge(IF Ev.ok THEN "ok" ELSE IF Ev.panicked THEN "the scanner panicked on the generated models" ELSE "the scanner fails on the generated models", FALSE)

SetToText(S) == IF S = {} THEN "" ELSE LET x == CHOOSE y \in S : TRUE IN x
RECURSIVE JoinSet(_)
JoinSet(S) == IF S = {} THEN "" ELSE LET x == CHOOSE y \in S : TRUE IN x \o " " \o JoinSet(S \ {x})
TScanned ==
  /\ IsEvent("Scanned") /\ phase = "scanned"
  /\ UNCHANGED <<phase, sdefs>>
  /\ LET diffs == IF Ev.found THEN SchemaDiffs(DefSchema(Ev.def), Ev.schema, "", sdefs) ELSE {"definition missing"} IN
     Judge(IF diffs = {} THEN "ok" ELSE JoinSet(diffs), FALSE)

TNext == TGenerate \/ TBuild \/ TModel \/ TScanRun \/ TScanned
TSpec == TInit /\ [][TNext]_tvars
Consumed == TLCGet("stats").diameter - 1 = Len(Trace)
=============================================================================
