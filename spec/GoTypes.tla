--------------------------- MODULE GoTypes ---------------------------
(***************************************************************************)
(* A bounded grammar of Go model declarations (C16): struct fields of      *)
(* every basic kind, pointers, slices, arrays, maps, nested / embedded /   *)
(* anonymous structs, time.Time, named types, []byte, json.RawMessage,     *)
(* interface{}, with the json tag options rename, "-", omitempty and       *)
(* ",string", unexported and swagger:ignore'd fields.                      *)
(*                                                                         *)
(* The grammar only ENUMERATES programs; what encoding/json makes of a     *)
(* value and what the scanner makes of the type are both observed, and     *)
(* JsonSchema!Valid decides whether they fit:                              *)
(*   every encoded exemplar value is valid for the scanned definition;     *)
(*   every instance of InstancesOf(scanned definition) that is valid for   *)
(*   it decodes into the type.                                             *)
(***************************************************************************)
EXTENDS JsonSchema

Basics == {"bool", "string", "int", "int8", "int16", "int32", "int64", "uint", "uint8", "uint16", "uint32", "uint64", "float32", "float64"}
Special == {"time", "bytes", "raw", "iface", "named_int", "named_str", "named_struct", "alias_float", "strfmt_date"}

B(n)      == [k |-> "basic", n |-> n]
S(n)      == [k |-> "special", n |-> n]
Ptr(e)    == [k |-> "ptr", e |-> e]
Slice(e)  == [k |-> "slice", e |-> e]
Array2(e) == [k |-> "array", e |-> e]
MapS(e)   == [k |-> "map", key |-> "string", e |-> e]
MapI(e)   == [k |-> "map", key |-> "int", e |-> e]
MapN(e)   == [k |-> "map", key |-> "MyStr", e |-> e]      \* key: a named type whose underlying type is string
Anon      == [k |-> "anon"]           \* struct { X int `json:"x"`; Y *string `json:"y,omitempty"` }

Leafs == {B(n) : n \in Basics} \cup {S(n) : n \in Special} \cup {Anon}
Depth1 == Leafs \cup {Ptr(e) : e \in Leafs} \cup {Slice(e) : e \in Leafs} \cup {MapS(e) : e \in Leafs}
          \cup {Array2(B(n)) : n \in {"int", "string", "uint8", "bool", "float64", "int8"}} \cup {Array2(S("named_struct")), Array2(S("bytes"))}
          \cup {MapI(B("string")), MapI(B("int64"))} \cup {MapN(B("int")), MapN(B("string")), MapN(S("named_struct"))}
Depth2 == {Slice(MapN(B("int"))), MapS(MapN(B("bool"))), Slice(Array2(B("uint8"))), Array2(Slice(B("uint8"))), Ptr(Array2(B("uint8"))), MapS(Array2(B("int"))), Slice(Slice(B("int"))), Slice(Ptr(B("string"))), Ptr(Slice(B("int"))), MapS(Slice(B("string"))), Slice(MapS(B("int"))),
           Ptr(Ptr(B("int"))), MapS(MapS(B("bool"))), Slice(S("named_struct")), Ptr(S("named_struct")), MapS(Ptr(S("named_struct"))),
           Slice(S("bytes")), Slice(Anon), Ptr(S("time")), Slice(S("time")), MapS(S("iface"))}
FieldTypes == Depth1 \cup Depth2

\* noname_*: the name part of the tag is empty (`json:",omitempty"`): the Go field name is the JSON name
TagOptions == {"plain", "rename", "omitempty", "string", "dash", "notag", "unexported", "ignore", "rename_omitempty",
               "noname_omitempty", "noname_string", "noname_both",
               \* name_*: the JSON NAME is a word that is also an option (`json:"string"`): it is a name, not an option
               "name_string", "name_omitempty"}
\* ",string" applies to scalars only (encoding/json ignores it elsewhere; the scanner must too)
Fields == {[ty |-> t, tag |-> "plain"] : t \in FieldTypes}
          \cup {[ty |-> t, tag |-> o] : t \in {B("int"), B("string"), B("bool"), B("float64"), B("uint8"), Ptr(B("int")), Slice(B("string")),
                                               MapS(B("int")), S("time"), S("named_struct"), S("bytes"), Anon}, o \in TagOptions}
          \cup {[ty |-> B(n), tag |-> o] : n \in Basics, o \in {"string", "noname_string", "noname_omitempty", "name_string", "name_omitempty"}}
          \cup {[ty |-> t, tag |-> "noname_omitempty"] : t \in {Slice(B("string")), MapS(B("int")), S("named_struct"), Ptr(S("named_struct")), Slice(S("named_struct")), Array2(B("int"))}}
          \cup {[ty |-> Ptr(B(n)), tag |-> "string"] : n \in {"int64", "bool", "float32", "string"}}

\* structural variants of a model: plain struct, with an embedded struct (promoted fields), with an
\* embedded pointer, the type itself being a slice / map / named scalar
\* embedded_unexported: the embedded struct's TYPE is unexported (its exported fields are still promoted)
\* embedded_nested_otherfile: the embedded struct is declared in ANOTHER FILE of the package and itself embeds a struct
\* (fields promoted through two levels, across files)
Shapes == {"struct", "embedded", "embedded_ptr", "embedded_unexported", "embedded_nested_otherfile"}

(***************************************************************************)
(* Instances of an (observed) schema: boundary-ish values per type, object *)
(* instances with required properties and one optional at a time.          *)
(***************************************************************************)
RECURSIVE InstancesOf(_, _, _)
InstancesOf(defs, s0, depth) ==
  LET s == IF Has(s0, "ref") /\ s0.ref \in DOMAIN defs THEN defs[s0.ref] ELSE s0
      ty == Get(s, "type", "") IN
  IF depth = 0 THEN {}
  ELSE CASE ty = "integer" ->
         \* values inside the range the integer format names: the format is how Swagger carries the Go range
         LET f == Get(s, "format", "") IN
         {Num(0), Num(2), Num(3)} \cup (IF f \in {"uint", "uint8", "uint16", "uint32", "uint64"} THEN {} ELSE {Num(-2)})
         \cup (IF f \in {"int8", "uint8"} THEN {} ELSE {Num(400)})
    [] ty = "number"  -> {Num(0), Num(3), Num(-5)}
    [] ty = "string"  -> IF Get(s, "format", "") = "date-time" THEN {Str("2020-01-02T03:04:05Z"), Str("a")}
                         ELSE IF Get(s, "format", "") = "date" THEN {Str("2020-01-02"), Str("a")}
                         ELSE IF Get(s, "format", "") = "byte" THEN {Str("YWI="), Str("a")}
                         ELSE {Str(""), Str("a"), Str("7")}
    [] ty = "boolean" -> {Bool(TRUE), Bool(FALSE)}
    [] ty = "array"   -> IF Has(s, "items")
                           THEN {Arr(<<>>)} \cup {Arr(<<v>>) : v \in InstancesOf(defs, s.items, depth - 1)}
                                \cup {Arr(<<v, v>>) : v \in InstancesOf(defs, s.items, depth - 1)}
                           ELSE {Arr(<<>>), Arr(<<Num(2)>>)}
    [] ty = "object" \/ Has(s, "properties") \/ Has(s, "additionalProperties") ->
         LET ps == Props(s)
             one(k) == InstancesOf(defs, ps[k], depth - 1)
             base == [k \in {x \in Required(s) : x \in DOMAIN ps /\ one(x) # {}} |-> CHOOSE v \in one(k) : TRUE] IN
         {Obj(base)}
         \cup UNION {{Obj(Put(base, k, v)) : v \in one(k)} : k \in DOMAIN ps}
         \cup (IF Has(s, "additionalProperties")
                 THEN {Obj(Put(base, "extra", v)) : v \in InstancesOf(defs, s.additionalProperties, depth - 1)} ELSE {})
    [] OTHER -> {Num(2), Str("a"), Bool(TRUE), Obj(<<>>), Arr(<<>>)}

=============================================================================
