--------------------------- MODULE JsonSchema ---------------------------
(***************************************************************************)
(* JSON values, Swagger-2.0 / draft-4 schema validity, and the deviations  *)
(* go-swagger documents (docs/reference/models/schemas.md) as named        *)
(* operators.  This module is the oracle for C02 C03 C05 C13 C16 C18: TLC  *)
(* evaluates Valid / AllowedVerdicts / RoundTripAllowed / SchemaEquiv on   *)
(* the cases it generated and on the traces recorded from the real code.   *)
(*                                                                         *)
(* Encoding (forced by TLC, see DESIGN.md 3.2):                            *)
(*  - a JSON value is a tagged tuple <<tag, payload>>;                      *)
(*  - the abstract number n stands for the JSON number n/2 (odd n are the  *)
(*    non-integers), uniformly in instances and in numeric keywords;       *)
(*  - a schema is a record whose DOMAIN is the set of keywords present;    *)
(*    "ref" holds a definition name, "noAdditional" stands for             *)
(*    additionalProperties:false, "additionalProperties" holds a schema,   *)
(*    "pattern" and "format" hold menu names (see PatSet / FmtSet).        *)
(***************************************************************************)
EXTENDS Integers, Sequences, FiniteSets, TLC

Has(s, k)    == k \in DOMAIN s
Get(s, k, d) == IF k \in DOMAIN s THEN s[k] ELSE d

\* Tagged values are TUPLES <<tag, payload>>: TLC orders record fields by an internal token order,
\* so a set mixing [t |-> "num", v |-> 1] and [t |-> "str", v |-> "a"] may compare 1 with "a" and
\* fail; tuples are always compared tag first.
Null     == <<"null">>
Num(n)   == <<"num", n>>
Str(x)   == <<"str", x>>
Bool(b)  == <<"bool", b>>
Arr(q)   == <<"arr", q>>
Obj(f)   == <<"obj", f>>
Tag(x)   == x[1]
Val(x)   == x[2]

IsNull(x) == Tag(x) = "null"

\* record surgery (schemas and JSON objects are functions with string domains)
Del(r, k)    == [x \in (DOMAIN r) \ {k} |-> r[x]]
Put(r, k, v) == [x \in (DOMAIN r) \cup {k} |-> IF x = k THEN v ELSE r[x]]
Range(f)     == {f[x] : x \in DOMAIN f}
SeqToSet(q)  == {q[i] : i \in DOMAIN q}

(***************************************************************************)
(* Menus.  A pattern / format keyword holds a menu name; its meaning on    *)
(* the string universe used by the generators is an explicit set.  The     *)
(* harness calibrates these tables against regexp / strfmt (trusted base)  *)
(* through the reference validator: a pair on which the table and the      *)
(* reference disagree is skipped and counted (two-oracle rule).            *)
(***************************************************************************)
StrU == {"", "a", "ab", "abc", "abcd", "b", "ba", "7", "2020-01-02", "x y", "3s", "YWI=", "2020-01-02T03:04:05Z"}

PatSet(p) ==
  CASE p = "P_a_prefix"  -> {"a", "ab", "abc", "abcd"}           \* ^a
    [] p = "P_has_b"     -> {"ab", "abc", "abcd", "b", "ba"}      \* b
    [] p = "P_len2"      -> {"ab", "ba"}                         \* ^..$
    [] p = "P_digits"    -> {"7"}                                \* ^[0-9]+$
    [] OTHER             -> StrU

FmtSet(f) ==
  CASE f = "date"      -> {"2020-01-02", "0001-01-01"}
    [] f = "duration"  -> {"3s"}
    [] f = "byte"      -> {"", "YWI="}
    [] f = "date-time" -> {"2020-01-02T03:04:05Z", "0001-01-01T00:00:00Z"}
    [] f = "uuid"      -> {"a0eebc99-9c0b-4ef8-bb6d-6bb9bd380a11"}
    [] f = "email"     -> {}
    [] f = "hostname"  -> {"a", "ab", "abc", "abcd", "b", "ba", "7"} \ {"7"} \* measured, see calibration
    [] OTHER           -> StrU

StringFormats == {"date", "date-time", "uuid", "email", "duration", "byte"}

(***************************************************************************)
(* Type test.  integer: a num whose abstract value is even (n/2 integral). *)
(***************************************************************************)
TypeOK(ty, v) ==
  CASE ty = "integer" -> Tag(v) = "num" /\ Val(v) % 2 = 0
    [] ty = "number"  -> Tag(v) = "num"
    [] ty = "string"  -> Tag(v) = "str"
    [] ty = "boolean" -> Tag(v) = "bool"
    [] ty = "array"   -> Tag(v) = "arr"
    [] ty = "object"  -> Tag(v) = "obj"
    [] OTHER          -> TRUE

EnumOK(s, v) ==
  LET ty == Get(s, "type", "") IN
  IF ty \in {"integer", "number"}
    THEN Tag(v) = "num" /\ \E i \in DOMAIN s.enum : s.enum[i] = Val(v)
  ELSE IF ty = "string"
    THEN Tag(v) = "str" /\ \E i \in DOMAIN s.enum : s.enum[i] = Val(v)
  ELSE IF ty = "boolean"
    THEN Tag(v) = "bool" /\ \E i \in DOMAIN s.enum : s.enum[i] = Val(v)
  ELSE TRUE

NumOK(s, n) ==
  /\ Has(s, "minimum") =>
       IF Get(s, "exclusiveMinimum", FALSE) THEN n > s.minimum ELSE n >= s.minimum
  /\ Has(s, "maximum") =>
       IF Get(s, "exclusiveMaximum", FALSE) THEN n < s.maximum ELSE n <= s.maximum
  /\ Has(s, "multipleOf") => n % s.multipleOf = 0

StrOK(s, x) ==
  /\ Has(s, "minLength") => Len(x) >= s.minLength
  /\ Has(s, "maxLength") => Len(x) <= s.maxLength
  /\ Has(s, "pattern")   => x \in PatSet(s.pattern)
  /\ (Has(s, "format") /\ s.format \in StringFormats) => x \in FmtSet(s.format)

Distinct(q) == \A i, j \in DOMAIN q : i # j => q[i] # q[j]

CountOK(s, n) ==
  /\ Has(s, "minItems") => n >= s.minItems
  /\ Has(s, "maxItems") => n <= s.maxItems

PropCountOK(s, n) ==
  /\ Has(s, "minProperties") => n >= s.minProperties
  /\ Has(s, "maxProperties") => n <= s.maxProperties

Required(s) == IF Has(s, "required") THEN SeqToSet(s.required) ELSE {}
Props(s)    == IF Has(s, "properties") THEN s.properties ELSE <<>>

\* follow $ref chains (a definition may itself be a bare $ref to another one)
RECURSIVE Deref(_, _)
Deref(defs, s) == IF Has(s, "ref") THEN Deref(defs, defs[s.ref]) ELSE s

(***************************************************************************)
(* Draft-4 validity on the supported keyword set.                          *)
(***************************************************************************)
RECURSIVE Valid(_, _, _)
Valid(defs, s0, v) ==
  LET s == Deref(defs, s0) IN
  /\ Has(s, "type") => TypeOK(s.type, v)
  /\ Has(s, "enum") => EnumOK(s, v)
  /\ Has(s, "enumT") => (\E i \in DOMAIN s.enumT : s.enumT[i] = v)      \* enum of a non-scalar schema: tagged values
  /\ Tag(v) = "num" => NumOK(s, Val(v))
  /\ Tag(v) = "str" => StrOK(s, Val(v))
  /\ Tag(v) = "arr" =>
       /\ CountOK(s, Len(Val(v)))
       /\ Get(s, "uniqueItems", FALSE) => Distinct(Val(v))
       /\ Has(s, "items") => \A i \in DOMAIN Val(v) : Valid(defs, s.items, Val(v)[i])
       \* tuple typing: position i is validated by itemsTuple[i]; further items are free (additionalItems absent)
       /\ Has(s, "itemsTuple") => \A i \in (DOMAIN Val(v)) \cap (DOMAIN s.itemsTuple) : Valid(defs, s.itemsTuple[i], Val(v)[i])
  /\ Tag(v) = "obj" =>
       /\ \A r \in Required(s) : r \in DOMAIN Val(v)
       /\ PropCountOK(s, Cardinality(DOMAIN Val(v)))
       /\ \A k \in DOMAIN Val(v) :
            IF k \in DOMAIN Props(s) THEN Valid(defs, Props(s)[k], Val(v)[k])
            ELSE IF Has(s, "additionalProperties") THEN Valid(defs, s.additionalProperties, Val(v)[k])
            ELSE ~Get(s, "noAdditional", FALSE)
  /\ Has(s, "allOf") => \A i \in DOMAIN s.allOf : Valid(defs, s.allOf[i], v)

(***************************************************************************)
(* go-swagger's documented latitude (schemas.md, "Nullability",            *)
(* "Validation"): an explicit zero value of an optional property - or of a *)
(* required one that is readOnly / has a default / is x-nullable:false -   *)
(* may be treated as absent; JSON null is a proxy for unset.               *)
(***************************************************************************)
\* properties and required sets through allOf members (used by the zero-value latitude and by C05)
RECURSIVE AllProps(_, _)
AllProps(defs, s0) ==
  LET s == Deref(defs, s0)
      own == Props(s)
      mem == IF Has(s, "allOf") THEN {AllProps(defs, s.allOf[i]) : i \in DOMAIN s.allOf} ELSE {}
      names == DOMAIN own \cup UNION {DOMAIN m : m \in mem}
  IN [k \in names |-> IF k \in DOMAIN own THEN own[k] ELSE (CHOOSE m \in mem : k \in DOMAIN m)[k]]

RECURSIVE AllRequired(_, _)
AllRequired(defs, s0) ==
  LET s == Deref(defs, s0) IN
  Required(s) \cup (IF Has(s, "allOf") THEN UNION {AllRequired(defs, s.allOf[i]) : i \in DOMAIN s.allOf} ELSE {})

ZeroOf(ty) ==
  CASE ty = "integer" -> Num(0)
    [] ty = "number"  -> Num(0)
    [] ty = "string"  -> Str("")
    [] ty = "boolean" -> Bool(FALSE)
    [] OTHER          -> Null

IsZeroFor(s, v) == Has(s, "type") /\ s.type \in {"integer", "number", "string", "boolean"} /\ v = ZeroOf(s.type)

ZeroEligible(defs, s, k, v) ==
  LET p == Deref(defs, AllProps(defs, s)[k]) IN
  /\ \/ IsZeroFor(p, v) \/ IsNull(v)
  /\ \/ k \notin AllRequired(defs, s)
     \/ Get(p, "readOnly", FALSE) \/ Has(p, "default") \/ (Has(p, "x-nullable") /\ ~p["x-nullable"])
     \/ IsNull(v)

\* All documents obtained from d by treating eligible zero values / nulls as absent (at the
\* top level of an object and one level below - the depth the generators use).
RECURSIVE Erasures(_, _, _, _)
Erasures(defs, s0, d, depth) ==
  LET s == Deref(defs, s0) IN
  IF Tag(d) # "obj" \/ depth = 0 \/ DOMAIN AllProps(defs, s) = {} THEN {d}
  ELSE
    LET ks   == DOMAIN Val(d)
        ps   == AllProps(defs, s)
        elig == {k \in ks : k \in DOMAIN ps /\ ZeroEligible(defs, s, k, Val(d)[k])}
        Sub(k) == IF k \in DOMAIN ps THEN Erasures(defs, ps[k], Val(d)[k], depth - 1) ELSE {Val(d)[k]}
    IN UNION { { Obj(f) : f \in { g \in [ks \ drop -> UNION {Sub(k) : k \in ks}] :
                                   \A k \in ks \ drop : g[k] \in Sub(k) } }
               : drop \in SUBSET elig }

\* null where the schema does not make it a distinguishable value: zero value or absent
RECURSIVE HasNull(_)
HasNull(d) ==
  \/ Tag(d) = "null"
  \/ Tag(d) = "arr" /\ \E i \in DOMAIN Val(d) : HasNull(Val(d)[i])
  \/ Tag(d) = "obj" /\ \E k \in DOMAIN Val(d) : HasNull(Val(d)[k])

(***************************************************************************)
(* ValidModel: Valid with the generator-side switches                      *)
(*   - unknown properties ignored (no strict mode)                         *)
(*   - objects without type/properties are not validated                   *)
(***************************************************************************)
RECURSIVE ValidModel(_, _, _)
ValidModel(defs, s0, v) ==
  LET s == Deref(defs, s0) IN
  /\ Has(s, "type") => TypeOK(s.type, v)
  /\ Has(s, "enum") => EnumOK(s, v)
  /\ Has(s, "enumT") => (\E i \in DOMAIN s.enumT : s.enumT[i] = v)      \* enum of a non-scalar schema: tagged values
  /\ Tag(v) = "num" => NumOK(s, Val(v))
  /\ Tag(v) = "str" => StrOK(s, Val(v))
  /\ Tag(v) = "arr" =>
       /\ CountOK(s, Len(Val(v)))
       /\ Get(s, "uniqueItems", FALSE) => Distinct(Val(v))
       /\ Has(s, "items") => \A i \in DOMAIN Val(v) : ValidModel(defs, s.items, Val(v)[i])
       /\ Has(s, "itemsTuple") => \A i \in (DOMAIN Val(v)) \cap (DOMAIN s.itemsTuple) : ValidModel(defs, s.itemsTuple[i], Val(v)[i])
  /\ Tag(v) = "obj" =>
       /\ \A r \in Required(s) : r \in DOMAIN Val(v)
       /\ PropCountOK(s, Cardinality(DOMAIN Val(v)))
       /\ \A k \in DOMAIN Val(v) :
            IF k \in DOMAIN Props(s) THEN ValidModel(defs, Props(s)[k], Val(v)[k])
            ELSE IF Has(s, "additionalProperties") THEN ValidModel(defs, s.additionalProperties, Val(v)[k])
            ELSE TRUE     \* IgnoreUnknownProps: also under additionalProperties:false (documented)
  /\ Has(s, "allOf") => \A i \in DOMAIN s.allOf : ValidModel(defs, s.allOf[i], v)

\* The set of verdicts the statement of C02 allows for (definition, document).
AllowedVerdicts(defs, s, d) ==
  { ValidModel(defs, s, e) : e \in Erasures(defs, s, d, 2) } \cup
  (IF Valid(defs, s, d) THEN {TRUE} ELSE {})

(***************************************************************************)
(* C05: what a decode/encode round trip may change.                        *)
(***************************************************************************)
RECURSIVE AddlSchema(_, _)
\* the schema governing undeclared properties, [none |-> TRUE] when there is none
AddlSchema(defs, s0) ==
  LET s == Deref(defs, s0) IN
  IF Has(s, "additionalProperties") THEN s.additionalProperties
  ELSE IF Has(s, "allOf") /\ \E i \in DOMAIN s.allOf : ~Has(AddlSchema(defs, s.allOf[i]), "none")
    THEN AddlSchema(defs, s.allOf[CHOOSE i \in DOMAIN s.allOf : ~Has(AddlSchema(defs, s.allOf[i]), "none")])
  ELSE [none |-> TRUE]

IsZeroish(v) ==
  \/ Tag(v) = "num" /\ Val(v) = 0
  \/ Tag(v) = "str" /\ Val(v) = ""
  \/ Tag(v) = "bool" /\ Val(v) = FALSE
  \/ Tag(v) \in {"arr", "obj"} /\ DOMAIN Val(v) = {}
  \/ Tag(v) = "null"

IsArraySchema(defs, s0) == LET s == Deref(defs, s0) IN Has(s, "type") /\ s.type = "array"

DateTimeCanon(x) == IF x = "2020-01-02T03:04:05.000Z" THEN "2020-01-02T03:04:05Z" ELSE x
RECURSIVE RoundTripAllowed(_, _, _, _)
RoundTripAllowed(defs, s0, d, o) ==
  LET sb == Deref(defs, s0)
      \* polymorphism: a value of a base type is compared through the subtype its discriminator names
      dv == IF Tag(d) = "obj" /\ Has(sb, "discriminator") /\ sb.discriminator \in DOMAIN Val(d)
                 /\ Tag(Val(d)[sb.discriminator]) = "str" THEN Val(Val(d)[sb.discriminator]) ELSE ""
      \* the subtype is named by its definition name, or by its x-class
      byClass == {n \in DOMAIN defs : Has(defs[n], "x-class") /\ defs[n]["x-class"] = dv}
      s == IF dv # "" /\ dv \in DOMAIN defs THEN defs[dv]
           ELSE IF dv # "" /\ byClass # {} THEN defs[CHOOSE n \in byClass : TRUE] ELSE sb IN
  IF Tag(d) = "obj" THEN
    /\ Tag(o) = "obj"
    /\ LET props == AllProps(defs, s)
           req   == AllRequired(defs, s)
           addl  == AddlSchema(defs, s) IN
       /\ \A k \in DOMAIN Val(d) :
            IF k \in DOMAIN props
              THEN \/ k \in DOMAIN Val(o) /\ RoundTripAllowed(defs, props[k], Val(d)[k], Val(o)[k])
                   \/ k \notin req /\ IsZeroish(Val(d)[k]) /\ k \notin DOMAIN Val(o)      \* OmitEmptyOptional
            ELSE IF ~Has(addl, "none")
              THEN k \in DOMAIN Val(o) /\ RoundTripAllowed(defs, addl, Val(d)[k], Val(o)[k])
            ELSE k \in DOMAIN Val(o) => Val(o)[k] = Val(d)[k]                               \* may be dropped
       /\ \A k \in (DOMAIN Val(o)) \ (DOMAIN Val(d)) :                                \* nothing is added ...
            k \in DOMAIN props /\ IsArraySchema(defs, props[k]) /\ Val(o)[k] = Null  \* ... but an absent array as null
  ELSE IF Tag(d) = "arr" THEN
    /\ Tag(o) = "arr" /\ Len(Val(o)) = Len(Val(d))
    /\ \A i \in DOMAIN Val(d) :
         IF Has(s, "items") THEN RoundTripAllowed(defs, s.items, Val(d)[i], Val(o)[i])
         ELSE IF Has(s, "itemsTuple") /\ i \in DOMAIN s.itemsTuple THEN RoundTripAllowed(defs, s.itemsTuple[i], Val(d)[i], Val(o)[i])
         ELSE Val(o)[i] = Val(d)[i]
  \* a date-time may be re-rendered with another precision: the same instant is the same value
  ELSE o = d \/ (Get(s, "format", "") = "date-time" /\ Tag(d) = "str" /\ Tag(o) = "str" /\ DateTimeCanon(Val(o)) = DateTimeCanon(Val(d)))

RECURSIVE HasNumX(_)
HasNumX(d) ==
  \/ Tag(d) = "numx"
  \/ Tag(d) = "arr" /\ \E i \in DOMAIN Val(d) : HasNumX(Val(d)[i])
  \/ Tag(d) = "obj" /\ \E k \in DOMAIN Val(d) : HasNumX(Val(d)[k])

(***************************************************************************)
(* C18: which keywords of a definition must survive spec -> generated      *)
(* models -> scanned spec.  SchemaDiffs returns the set of "path:keyword"  *)
(* places where the two schemas differ; defaults, examples, descriptive    *)
(* text and x- extensions are not part of the abstract schema at all.      *)
(* Latitude (schemas.md, primitive types): integer == integer/int64 and    *)
(* number == number/double.                                                *)
(***************************************************************************)
NormFmt(s) ==
  LET t == Get(s, "type", "")  f == Get(s, "format", "") IN
  IF t = "integer" /\ f \in {"", "int64"} THEN "int64"
  ELSE IF t = "number" /\ f \in {"", "double"} THEN "double" ELSE f
EqScalarKeys == {"minimum", "maximum", "multipleOf", "minLength", "maxLength", "pattern", "minItems", "maxItems",
                 "minProperties", "maxProperties", "ref"}
EqBoolKeys   == {"exclusiveMinimum", "exclusiveMaximum", "uniqueItems", "readOnly"}

\* An allOf whose members are all inline objects denotes the same schema as the merged object; the
\* generator may flatten it.  A $ref introduced by the generator for an anonymous schema (target not a
\* definition of the input) is looked through.
InlineAllOf(s) == Has(s, "allOf") /\ \A i \in DOMAIN s.allOf : ~Has(s.allOf[i], "ref") /\ ~Has(s.allOf[i], "allOf")
TypeF(s)  == IF InlineAllOf(s) THEN "object" ELSE Get(s, "type", "")
PropsF(s) ==
  IF InlineAllOf(s)
    THEN LET names == DOMAIN Props(s) \cup UNION {DOMAIN Props(s.allOf[i]) : i \in DOMAIN s.allOf} IN
         [k \in names |-> IF k \in DOMAIN Props(s) THEN Props(s)[k]
                          ELSE Props(s.allOf[CHOOSE i \in DOMAIN s.allOf : k \in DOMAIN Props(s.allOf[i])])[k]]
    ELSE Props(s)
ReqF(s) == IF InlineAllOf(s) THEN Required(s) \cup UNION {Required(s.allOf[i]) : i \in DOMAIN s.allOf} ELSE Required(s)

\* additionalProperties: true (the empty schema) says what its absence says
HasAP(s) == Has(s, "additionalProperties") /\ DOMAIN s.additionalProperties # {}
RECURSIVE SchemaDiffs(_, _, _, _)
SchemaDiffs(a, b0, path, sdefs) ==
  LET b == IF Has(b0, "ref") /\ ~Has(a, "ref") /\ b0.ref \in DOMAIN sdefs THEN sdefs[b0.ref] ELSE b0
      sameType == TypeF(a) = TypeF(b) IN
  (IF sameType THEN {} ELSE {path \o ":type"})
  \cup (IF NormFmt(a) = NormFmt(b) THEN {} ELSE {path \o ":format"})
  \cup {path \o ":" \o k : k \in {k \in EqScalarKeys : Has(a, k) # Has(b, k) \/ (Has(a, k) /\ Has(b, k) /\ a[k] # b[k])}}
  \cup {path \o ":" \o k : k \in {k \in EqBoolKeys : Get(a, k, FALSE) # Get(b, k, FALSE)}}
  \cup (IF ReqF(a) = ReqF(b) THEN {} ELSE {path \o ":required"})
  \cup (IF ~sameType THEN {}
        ELSE IF Has(a, "enum") # Has(b, "enum") THEN {path \o ":enum"}
        ELSE IF Has(a, "enum") /\ SeqToSet(a.enum) # SeqToSet(b.enum) THEN {path \o ":enum"} ELSE {})
  \cup (IF Has(a, "enumT") # Has(b, "enumT") THEN {path \o ":enum"} ELSE {})
  \cup (IF DOMAIN PropsF(a) = DOMAIN PropsF(b) THEN {} ELSE {path \o ":properties"})
  \cup UNION {SchemaDiffs(PropsF(a)[k], PropsF(b)[k], path \o "." \o k, sdefs) : k \in (DOMAIN PropsF(a)) \cap (DOMAIN PropsF(b))}
  \cup (IF Has(a, "items") # Has(b, "items") THEN {path \o ":items"}
        ELSE IF Has(a, "items") THEN SchemaDiffs(a.items, b.items, path \o "[]", sdefs) ELSE {})
  \cup (IF HasAP(a) # HasAP(b) THEN {path \o ":additionalProperties"}
        ELSE IF HasAP(a) THEN SchemaDiffs(a.additionalProperties, b.additionalProperties, path \o "{}", sdefs) ELSE {})
  \cup (IF InlineAllOf(a) \/ InlineAllOf(b) THEN {}
        ELSE IF Has(a, "allOf") # Has(b, "allOf") THEN {path \o ":allOf"}
        ELSE IF ~Has(a, "allOf") THEN {}
        ELSE IF Len(a.allOf) # Len(b.allOf) THEN {path \o ":allOf"}
        ELSE UNION {SchemaDiffs(a.allOf[i], b.allOf[i], path \o "&", sdefs) : i \in DOMAIN a.allOf})

=============================================================================
