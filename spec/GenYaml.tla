--------------------------- MODULE GenYaml ---------------------------
EXTENDS YamlScalars, Randomization
CONSTANT Sample
VARIABLE c
GInit == c \in (IF Sample = 0 THEN Cases ELSE RandomSubset(Sample, Cases)) /\ YInit
GNext == UNCHANGED <<c, doc, outs>>
Emit == PrintT(<<"CASE", ToJson(c)>>)
=============================================================================
