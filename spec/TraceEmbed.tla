--------------------------- MODULE TraceEmbed ---------------------------
(* Trace validation for C10: one Embedded event per generated server: the digests of the input
   document, of restapi.SwaggerJSON, of the resolved sections of restapi.FlatSwaggerJSON and of the
   document served at /swagger.json are bound to the variables of Embed and its invariants evaluated. *)
EXTENDS Embed
Trace == ndJsonDeserialize("trace.ndjson")
VARIABLES l, nrej
tvars == <<l, nrej, phase, input, orig, flat, served>>
Ev == Trace[l]
IsEvent(e) == l <= Len(Trace) /\ Trace[l].ev = e /\ l' = l + 1
Reject(why) == PrintT(<<"REJECT", ToJson([line |-> l, why |-> why])>>) /\ nrej' = nrej + 1
Judge(why) == IF why = "ok" THEN nrej' = nrej ELSE Reject(why)
Why ==
  IF ~Ev.built THEN "ok"                                       \* generation refused or C01 matter: nothing embedded
  ELSE IF ~Ev.started THEN "the generated server cannot be set up from the documents it embeds"
  ELSE IF Ev.orig # Ev.input THEN "the embedded original document is not JSON-equal to the input document"
  ELSE IF Ev.served # Ev.input THEN "the document served at /swagger.json is not JSON-equal to the input document"
  \* the generated main program loads the embedded documents itself (loads.Embedded(original, flattened))
  ELSE IF Ev.mainRun /\ ~Ev.mainStarted THEN "the generated main program cannot be set up from the documents it embeds"
  ELSE IF Ev.mainRun /\ Ev.mainServed # Ev.input THEN "the document served at /swagger.json by the generated main program is not JSON-equal to the input document"
  ELSE IF Ev.flatPaths # Ev.inputPaths THEN "the flattened embedded document describes different paths/operations/parameters/responses"
  ELSE IF Ev.flatSecurity # Ev.inputSecurity THEN "the flattened embedded document describes different security"
  ELSE IF Ev.missingDefs > 0 THEN "a definition of the input is missing from or different in the flattened embedded document"
  ELSE "ok"
TInit == l = 1 /\ nrej = 0 /\ EInit
TEmbedded ==
  /\ IsEvent("Embedded")
  /\ Judge(Why)
  /\ phase' = "served" /\ input' = Ev.input /\ orig' = Ev.orig /\ served' = Ev.served /\ flat' = Ev.flatPaths
TSpec == TInit /\ [][TEmbedded]_tvars
Consumed == TLCGet("stats").diameter - 1 = Len(Trace)
=============================================================================
