--------------------------- MODULE TraceDeterminism ---------------------------
(* Trace validation for C07 (part A): every Run event is one execution of a command; the first run of a
   (job, target) defines out, every later run - sequential, concurrent or in a new process - must agree. *)
EXTENDS Integers, Sequences, TLC, Json
Trace == ndJsonDeserialize("trace.ndjson")
VARIABLES l, nrej, outv
tvars == <<l, nrej, outv>>
Ev == Trace[l]
IsEvent(e) == l <= Len(Trace) /\ Trace[l].ev = e /\ l' = l + 1
Reject(why) == PrintT(<<"REJECT", ToJson([line |-> l, why |-> why])>>) /\ nrej' = nrej + 1
Judge(why) == IF why = "ok" THEN nrej' = nrej ELSE Reject(why)
Key == <<Ev.job, Ev.target>>
TInit == l = 1 /\ nrej = 0 /\ outv = <<>>
TRun ==
  /\ IsEvent("Run")
  /\ IF Key \in DOMAIN outv
       THEN /\ UNCHANGED outv
            /\ Judge(IF outv[Key] = <<Ev.exit, Ev.digest>> THEN "ok"
                     ELSE IF Ev.mode = "conc" THEN "a run concurrent with other runs produces a different output than the same run alone"
                     ELSE IF Ev.mode = "proc" THEN "a run in a new process produces a different output"
                     ELSE "repeating the run produces a different output")
       ELSE outv' = (Key :> <<Ev.exit, Ev.digest>>) @@ outv /\ Judge("ok")
TRace ==
  /\ IsEvent("Race") /\ UNCHANGED outv
  /\ Judge(IF Ev.reports = 0 THEN "ok" ELSE "the race detector reports a data race between concurrent generations")
TSpec == TInit /\ [][TRun \/ TRace]_tvars
Consumed == TLCGet("stats").diameter - 1 = Len(Trace)
=============================================================================
