--------------------------- MODULE TraceAnnot ---------------------------
(* Trace validation for C17: every Scanned event is one run of the real scanner on one generated
   program; every Robust event one run on a program whose comments are arbitrary line sequences. *)
EXTENDS Annot, Json
Trace == ndJsonDeserialize("trace.ndjson")
VARIABLES l, nrej
tvars == <<l, nrej, lines, pos, mode, title, desc, tagsSeen>>
Ev == Trace[l]
IsEvent(e) == l <= Len(Trace) /\ Trace[l].ev = e /\ l' = l + 1
Reject(why) == PrintT(<<"REJECT", ToJson([line |-> l, why |-> why])>>) /\ nrej' = nrej + 1
Judge(why) == IF why = "ok" THEN nrej' = nrej ELSE Reject(why)
Keep == UNCHANGED <<lines, pos, mode, title, desc, tagsSeen>>

OpRec == LET o == Ev.op IN Op(o.method, o.path, o.tags, o.id, o.resp, {o.blocks[i] : i \in DOMAIN o.blocks}, {o.params[i] : i \in DOMAIN o.params}, o.spell)
Found == {i \in DOMAIN Ev.ops : Ev.ops[i].method = Ev.op.method /\ Ev.ops[i].path = Ev.op.path}
ModelWhy(k) ==
  LET e == ExpectedModel(k) IN
  IF e.name \notin DOMAIN Ev.models THEN "model " \o e.name \o " missing"
  ELSE LET m == Ev.models[e.name] IN
       IF e.props # {} /\ {m.props[i] : i \in DOMAIN m.props} # e.props THEN "model " \o e.name \o ": properties"
       ELSE IF {m.required[i] : i \in DOMAIN m.required} # e.required THEN "model " \o e.name \o ": required"
       ELSE "ok"
Why ==
  IF Ev.panicked THEN "the scanner panicked"
  ELSE IF Ev.failed THEN "ok"                                   \* a diagnostic error is compliant
  ELSE IF ~Ev.valid THEN "the produced document does not pass Swagger 2.0 validation"
  ELSE IF Found = {} THEN "the annotated route is missing from the document"
  ELSE LET w == OpWhy(ExpectedOp(OpRec), Ev.ops[CHOOSE i \in Found : TRUE]) IN
       IF w # "ok" THEN "the operation's " \o w \o " are not as annotated"
       ELSE IF "companion_operation" \in OpRec.blocks
               /\ ~\E i \in DOMAIN Ev.ops : /\ Ev.ops[i].method = Companion.method /\ Ev.ops[i].path = Companion.path
                                            /\ Ev.ops[i].id = Companion.id /\ Ev.ops[i].tags = Companion.tags
                                            /\ ParamMatches(Companion.param, {Ev.ops[i].params[j] : j \in DOMAIN Ev.ops[i].params})
         THEN "the swagger:operation annotated in the same file is missing from the document or not as annotated"
       ELSE IF Ev.merge # "none" /\ ~Ev.mergedKept THEN "the input spec's own paths/definitions are lost in the merge"
       ELSE IF \E k \in ModelKinds : ModelWhy(k) # "ok" THEN ModelWhy(CHOOSE k \in ModelKinds : ModelWhy(k) # "ok")
       ELSE "ok"
TInit == l = 1 /\ nrej = 0 /\ lines = <<>> /\ pos = 1 /\ mode = "header" /\ title = <<>> /\ desc = <<>> /\ tagsSeen = 0
TScanned == IsEvent("Scanned") /\ Keep /\ Judge(Why)
TRobust == IsEvent("Robust") /\ Keep /\ Judge(IF Ev.panicked THEN "arbitrary comment text makes the scanner crash" ELSE "ok")
TSpec == TInit /\ [][TScanned \/ TRobust]_tvars
Consumed == TLCGet("stats").diameter - 1 = Len(Trace)
=============================================================================
