--------------------------- MODULE YamlScalars ---------------------------
(***************************************************************************)
(* Spec-emitting commands and the two renderings of a document (C19).      *)
(*                                                                         *)
(* A command is an action on an abstract document whose definition does    *)
(* not mention the format parameters:                                      *)
(*     out = Cmd(doc)          independent of inFmt, outFmt, compact       *)
(* so for every document the four runs {json,yaml} x {json,yaml} must      *)
(* denote one value.  The case universe is scalar content class x position *)
(* x command; TLC enumerates it, the trace spec checks the equalities on   *)
(* canonical-value digests of the files the real CLI wrote.                *)
(***************************************************************************)
EXTENDS Integers, Sequences, FiniteSets, TLC, Json

\* commands and their option variants: flatten with full flattening / removal of unused definitions,
\* mixin with the document as primary or as mixed-in (secondary) spec, with and without
\* --keep-spec-order (which re-reads every mixed-in spec to record the order of its properties)
Commands  == {"flatten", "flatten_full", "flatten_unused", "expand", "mixin", "mixin_keeporder", "mixin_sec", "mixin_sec_keeporder", "genspec", "init"}
Formats   == {"json", "yaml"}
\* strings that a YAML reader may take for something else, and numbers at the edge of float64
StringClasses == {"int_like", "float_like", "exp_like", "hex_like", "octal_like", "bool_true", "bool_True", "bool_yes", "bool_no",
                  "bool_on", "bool_off", "null_word", "null_tilde", "empty", "date_like", "timestamp_like", "sexagesimal",
                  "inf_like", "nan_like", "multiline", "lead_space", "trail_space", "colon_space", "space_hash", "dash_space",
                  "flow_seq", "flow_map", "anchor", "alias", "tag_bang", "percent", "at_sign", "backquote", "single_quote",
                  "double_quote", "backslash", "nonascii", "control", "tab", "long_line", "question", "pipe", "gt",
                  \* characters JSON encoders escape for HTML, and text that looks like such an escape
                  "html_chars", "escape_like",
                  \* characters outside the BMP, the Unicode line separators, the solidus: JSON encoders differ in how they
                  \* escape them (surrogate pairs, raw, \/) - the same document whoever wrote the JSON
                  "nonbmp", "line_sep", "solidus"}
NumberClasses == {"big_int_2p53p1", "uint64_max", "float_1e21", "float_0_1", "neg_zero", "float_integral", "small_exp"}
Positions == {"description", "enum", "default", "example", "extension", "propname", "extkey"}
NumPositions == {"extension", "example", "default_num"}

Cases ==
  {[cmd |-> c, cls |-> k, pos |-> p, num |-> FALSE] : c \in Commands \ {"init"}, k \in StringClasses, p \in Positions}
  \cup {[cmd |-> c, cls |-> k, pos |-> p, num |-> TRUE] : c \in Commands \ {"init"}, k \in NumberClasses, p \in NumPositions}
  \cup {[cmd |-> "init", cls |-> k, pos |-> "description", num |-> FALSE] : k \in StringClasses}

\* ---- the machine: one document, four runs -------------------------------------------------
VARIABLES doc, outs
yvars == <<doc, outs>>
YInit == doc = "d" /\ outs = <<>>
Cmd(d) == <<"result-of", d>>                       \* a function of the document alone
Run(i, o) == outs' = Append(outs, [inFmt |-> i, outFmt |-> o, value |-> Cmd(doc)]) /\ UNCHANGED doc
YNext == \E i \in Formats, o \in Formats : Len(outs) < 4 /\ Run(i, o)
YSpec == YInit /\ [][YNext]_yvars
Interchangeable == \A a, b \in DOMAIN outs : outs[a].value = outs[b].value
=============================================================================
