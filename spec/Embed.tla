--------------------------- MODULE Embed ---------------------------
(***************************************************************************)
(* The document embedded in a generated server (C10) as a pipeline         *)
(*   Load(format) -> Flatten(mode) -> PlanModels -> Embed -> Compile ->    *)
(*   Serve                                                                 *)
(* over an abstract document = record of section contents.  PlanModels may *)
(* only ADD definitions (anonymous schemas lifted into named ones); Embed  *)
(* pastes both documents into Go raw strings (GoLex: RawString context     *)
(* with escapeBackticks).  The invariants are C10; the trace spec binds    *)
(* the digests observed from the compiled server.                          *)
(***************************************************************************)
EXTENDS Integers, Sequences, FiniteSets, TLC, Json

Formats  == {"json", "yaml"}
Modes    == {"minimal", "full", "expand"}
\* multifile: the document refers to sibling files by relative $refs (definitions and a shared parameter);
\* the embedded original is the main file as written, the embedded flattened document must be self-contained
\* noids: operations without operationId, next to an operation whose explicit id is the name the generator
\* derives for one of them (the embedded documents must keep the ids of the input - present, absent, as written)
Docs     == {"rich", "nested", "multifile", "noids"}
\* string content classes placed at the free-text positions of the document
Contents == {"plain", "backtick", "dquote", "backslash", "newline", "control", "nonascii", "template", "html"}

Sections == {"paths", "security", "definitions"}

VARIABLES phase, input, orig, flat, served
evars == <<phase, input, orig, flat, served>>
\* abstract content: [sec |-> identity of the resolved section]; Added definitions do not change identities
EInit == phase = "start" /\ input = "doc" /\ orig = "none" /\ flat = "none" /\ served = "none"
Load     == phase = "start"   /\ phase' = "loaded"    /\ orig' = input /\ UNCHANGED <<input, flat, served>>
Flatten  == phase = "loaded"  /\ phase' = "flattened" /\ flat' = input /\ UNCHANGED <<input, orig, served>>    \* $ref-resolved content is preserved
Plan     == phase = "flattened" /\ phase' = "planned" /\ UNCHANGED <<input, orig, flat, served>>               \* only adds definitions
EmbedA   == phase = "planned" /\ phase' = "embedded"  /\ UNCHANGED <<input, orig, flat, served>>
Serve    == phase = "embedded" /\ phase' = "served"   /\ served' = orig /\ UNCHANGED <<input, orig, flat>>
ENext == Load \/ Flatten \/ Plan \/ EmbedA \/ Serve
ESpec == EInit /\ [][ENext]_evars
OrigIsInput  == phase \in {"loaded", "flattened", "planned", "embedded", "served"} => orig = input
FlatIsInput  == phase \in {"flattened", "planned", "embedded", "served"} => flat = input
ServedIsOrig == phase = "served" => served = input
=============================================================================
