--------------------------- MODULE GenEmbed ---------------------------
EXTENDS Embed
VARIABLE c
Cases == {[doc |-> d, fmt |-> f, mode |-> m, content |-> k] : d \in Docs, f \in Formats, m \in Modes, k \in Contents}
GInit == c \in Cases /\ EInit
GNext == UNCHANGED <<c, phase, input, orig, flat, served>>
Emit == PrintT(<<"CASE", ToJson(c)>>)
=============================================================================
