--------------------------- MODULE DiffCases ---------------------------
(***************************************************************************)
(* The bounded universe of (old, new) document pairs for C13/C14/C15:      *)
(* every leaf x applicable edit x location x direction, plus structural    *)
(* edits (endpoint / media type / parameter / property / response          *)
(* changes).  A case descriptor is a flat record of strings and booleans;  *)
(* CaseAB maps it to the two abstract documents and the candidate request  *)
(* set.  The same operator is used by the generator config and by the      *)
(* trace spec, so the harness never computes an expectation.               *)
(***************************************************************************)
EXTENDS DiffModel

EditByName(n) == CHOOSE e \in Edits : e.name = n

LocOK(loc, leafName) ==
  LET leaf == Leaves[leafName] IN
  CASE loc = "path" -> leaf.type \in {"integer", "string", "number"}
    [] loc \in {"query", "header", "formData"} -> TRUE
    [] OTHER -> TRUE

Desc(kind, loc, leaf, edit, swap) == [kind |-> kind, loc |-> loc, leaf |-> leaf, edit |-> edit, swap |-> swap]

LeafCases ==
  {Desc("leaf", l, ln, e.name, s) : l \in Locs, ln \in DOMAIN Leaves, e \in Edits, s \in BOOLEAN}
LeafCaseOK(c) == c.leaf \in EditByName(c.edit).on /\ LocOK(c.loc, c.leaf)

\* two simultaneous edits of different keywords on one leaf (sites that cooperate, e.g. an exclusive
\* flag and the bound it qualifies), at one parameter and one body location
Pairs2 == {p \in (DOMAIN Leaves) \X (DOMAIN EditSeq) \X (DOMAIN EditSeq) :
             /\ p[2] < p[3]
             /\ EditSeq[p[2]].k \notin {"type", "format"} /\ EditSeq[p[3]].k \notin {"type", "format"}
             /\ p[1] \in EditSeq[p[2]].on /\ p[1] \in EditSeq[p[3]].on
             /\ <<EditSeq[p[2]].k, EditSeq[p[2]].items>> # <<EditSeq[p[3]].k, EditSeq[p[3]].items>>}
Name2(p) == EditSeq[p[2]].name \o "+" \o EditSeq[p[3]].name
Leaf2Cases == {Desc("leaf2", l, p[1], Name2(p), s) : l \in {"query", "body_prop"}, p \in Pairs2, s \in BOOLEAN}
Edit2(c) == LET p == CHOOSE q \in Pairs2 : q[1] = c.leaf /\ Name2(q) = c.edit IN <<EditSeq[p[2]], EditSeq[p[3]]>>

StructLeaves == {"INT", "STRPLAIN", "ARR"}
StructCases ==
  {Desc("required", l, ln, "-", s) : l \in Locs \ {"path", "body_root", "body_items"}, ln \in StructLeaves, s \in BOOLEAN}
  \cup {Desc(k, l, ln, "-", s) : k \in {"added_required", "added_optional"},
                                 l \in {"query", "header", "formData", "body_prop"}, ln \in StructLeaves, s \in BOOLEAN}
  \cup {Desc(k, "-", "-", "-", s) : k \in {"endpoint", "consumes", "resp_code", "resp_prop", "resp_header",
                                          "resp_enum", "resp_prop_added", "identity",
                                          \* definitions no endpoint uses: the target of an allOf is renamed / dropped
                                          "unref_allof_renamed", "unref_allof_dropped", "unref_ref_renamed",
                                          \* tuple-typed items (items as an array of schemas): same document, and one position edited
                                          "tuple_identity", "tuple_edit"}, s \in BOOLEAN}
  \cup {Desc("location", "query", ln, t, s) : ln \in {"INT", "STRPLAIN"}, t \in {"header", "formData"}, s \in BOOLEAN}
  \cup {Desc("cf", l, "ARR", cf, s) : l \in {"query", "header", "formData"}, cf \in {"pipes", "ssv"}, s \in BOOLEAN}
  \* the same parameter declared by the path item on one side and by the operation on the other: nothing changed
  \* (level_moved), or an optional parameter was added to the operation as well (level_moved_added)
  \cup {Desc(k, l, ln, "-", s) : k \in {"level_moved", "level_moved_added"}, l \in {"query_pathlevel", "header_pathlevel"}, ln \in {"INT", "ARR"}, s \in BOOLEAN}
  \* collectionFormat left out on one side (it then means csv) and spelled out on the other
  \cup {Desc("cf_from_none", l, "ARR", cf, s) : l \in {"query", "header", "formData"}, cf \in {"pipes", "tsv"}, s \in BOOLEAN}
  \cup {Desc("cf_from_none", l, "ARR", "multi", s) : l \in {"query", "formData"}, s \in BOOLEAN}

\* descriptive / non-semantic edits: never request-breaking, they exercise direction labelling (C14)
MetaEdits == {"op_desc_added", "op_desc_changed", "param_desc_added", "param_desc_changed", "resp_desc_changed",
              "schema_desc_added", "schema_desc_changed", "tag_added", "tag_replaced", "ext_added", "ext_changed",
              "default_added", "default_changed", "example_added", "example_changed", "produces_added",
              "scheme_added", "host_changed", "basepath_changed", "definition_added", "resp_added_with_schema",
              "header_type_changed", "param_type_and_default",
              \* a list that is wholly absent on one side
              "tags_from_none", "schemes_from_none", "consumes_from_none",
              \* descriptions at NESTED locations at once (operation, parameter, response schema, a property, an object
              \* property and a property of it): differences of one kind whose locations are prefixes of one another
              "desc_nested_added", "desc_nested_changed",
              \* a vendor extension whose value is JSON null (the key is present, the value is not): it gets a value / it stays
              "ext_null_to_value", "ext_null_kept"}
MetaCases == {Desc("meta", "-", "-", e, s) : e \in MetaEdits, s \in BOOLEAN}

CaseSpace == {c \in LeafCases : LeafCaseOK(c)} \cup Leaf2Cases \cup StructCases \cup MetaCases

RespAOS(props, hdrs, codes) ==
  [BaseAOS EXCEPT !.responses =
     [c \in codes |->
        IF c = "r200"
          THEN [description |-> "ok",
                schema |-> [type |-> "object", properties |-> props],
                headers |-> hdrs]
          ELSE [description |-> "other"]]]

PropsAB == [a |-> [type |-> "string"], e |-> [type |-> "string", enum |-> <<"a", "ab">>]]
PropsA  == [e |-> [type |-> "string", enum |-> <<"a", "ab">>]]
PropsE  == [a |-> [type |-> "string"], e |-> [type |-> "string", enum |-> <<"a", "ab", "abc">>]]
HdrsXY  == [X |-> [type |-> "string"], Y |-> [type |-> "integer"]]
HdrsX   == [X |-> [type |-> "string"]]

ObjQ == [type |-> "object", properties |-> [q |-> [type |-> "string"]]]
TupleBody(extra) == [type |-> "object", properties |-> [pair |-> [type |-> "array", itemsTuple |-> <<[type |-> "string"], [type |-> "integer"] @@ extra>>],
                                                         name |-> [type |-> "string"]]]
UnrefObj == [type |-> "object", properties |-> [id |-> [type |-> "integer"], name |-> [type |-> "string"]]]
ObjQP(leaf, req) ==
  IF req THEN [type |-> "object", properties |-> [q |-> [type |-> "string"], p |-> leaf], required |-> <<"p">>]
         ELSE [type |-> "object", properties |-> [q |-> [type |-> "string"], p |-> leaf]]

MetaParam(extra) == ParamOf("query", [type |-> "string"] @@ extra, FALSE, "csv")
MetaBase == [RespAOS(PropsAB, HdrsXY, {"r200"}) EXCEPT !.params = <<MetaParam(<<>>)>>]
WithParam(extra) == [MetaBase EXCEPT !.params = <<MetaParam(extra)>>]
PropsDesc(d) == [a |-> [type |-> "string", description |-> d], e |-> [type |-> "string", enum |-> <<"a", "ab">>]]
PropsNest(D) == [a |-> [type |-> "string"] @@ D, e |-> [type |-> "string", enum |-> <<"a", "ab">>],
                 o |-> [type |-> "object", properties |-> [n |-> [type |-> "string"] @@ D]] @@ D]
NestDoc(D, od) ==
  LET b == [MetaBase EXCEPT !.responses.r200.schema = [type |-> "object", properties |-> PropsNest(D)] @@ D, !.params = <<MetaParam(D)>>]
  IN IF od = "" THEN b ELSE Put(b, "opdesc", od)
MetaPair(e) ==
  CASE e = "op_desc_added"     -> <<MetaBase, Put(MetaBase, "opdesc", "first text")>>
    [] e = "op_desc_changed"   -> <<Put(MetaBase, "opdesc", "first text"), Put(MetaBase, "opdesc", "second text")>>
    [] e = "param_desc_added"  -> <<MetaBase, WithParam([description |-> "first text"])>>
    [] e = "param_desc_changed"-> <<WithParam([description |-> "first text"]), WithParam([description |-> "second text"])>>
    [] e = "resp_desc_changed" -> <<MetaBase, [MetaBase EXCEPT !.responses.r200.description = "other text"]>>
    [] e = "schema_desc_added" -> <<MetaBase, [MetaBase EXCEPT !.responses.r200.schema.properties = PropsDesc("first text")]>>
    [] e = "schema_desc_changed" -> <<[MetaBase EXCEPT !.responses.r200.schema.properties = PropsDesc("first text")],
                                     [MetaBase EXCEPT !.responses.r200.schema.properties = PropsDesc("second text")]>>
    [] e = "tag_added"         -> <<Put(MetaBase, "tags", <<"t1">>), Put(MetaBase, "tags", <<"t1", "t2">>)>>
    [] e = "tag_replaced"      -> <<Put(MetaBase, "tags", <<"t1">>), Put(MetaBase, "tags", <<"t2">>)>>
    [] e = "tags_from_none"    -> <<MetaBase, Put(MetaBase, "tags", <<"t1", "t2">>)>>
    [] e = "schemes_from_none" -> <<MetaBase, Put(MetaBase, "schemes", <<"http", "https">>)>>
    [] e = "consumes_from_none"-> <<[MetaBase EXCEPT !.consumes = <<>>], [MetaBase EXCEPT !.consumes = <<"application/json", "application/xml">>]>>
    [] e = "ext_added"         -> <<MetaBase, Put(MetaBase, "ext", [xa |-> "1"])>>
    [] e = "ext_changed"       -> <<Put(MetaBase, "ext", [xa |-> "1"]), Put(MetaBase, "ext", [xa |-> "2"])>>
    [] e = "ext_null_to_value" -> <<Put(MetaBase, "ext", [xa |-> "NULL"]), Put(MetaBase, "ext", [xa |-> "1"])>>
    [] e = "ext_null_kept"     -> <<Put(Put(MetaBase, "ext", [xa |-> "NULL", xb |-> "1"]), "tags", <<"t1">>),
                                    Put(Put(MetaBase, "ext", [xa |-> "NULL", xb |-> "2"]), "tags", <<"t1", "t2">>)>>
    [] e = "default_added"     -> <<MetaBase, WithParam([default |-> Str("a")])>>
    [] e = "default_changed"   -> <<WithParam([default |-> Str("a")]), WithParam([default |-> Str("ab")])>>
    [] e = "example_added"     -> <<MetaBase, WithParam([example |-> Str("a")])>>
    [] e = "example_changed"   -> <<WithParam([example |-> Str("a")]), WithParam([example |-> Str("ab")])>>
    [] e = "produces_added"    -> <<Put(MetaBase, "produces", <<"application/json">>), Put(MetaBase, "produces", <<"application/json", "application/xml">>)>>
    [] e = "scheme_added"      -> <<Put(MetaBase, "schemes", <<"http">>), Put(MetaBase, "schemes", <<"http", "https">>)>>
    [] e = "host_changed"      -> <<Put(MetaBase, "host", "a.example.com"), Put(MetaBase, "host", "b.example.com")>>
    [] e = "basepath_changed"  -> <<Put(MetaBase, "basePath", "/v1"), Put(MetaBase, "basePath", "/v2")>>
    [] e = "definition_added"  -> <<MetaBase, [MetaBase EXCEPT !.defs = [Unused |-> [type |-> "object"]]]>>
    [] e = "resp_added_with_schema" -> <<MetaBase, [MetaBase EXCEPT !.responses = [c \in {"r200", "r201"} |-> MetaBase.responses.r200]]>>
    [] e = "header_type_changed" -> <<MetaBase, [MetaBase EXCEPT !.responses.r200.headers.Y = [type |-> "string"]]>>
    [] e = "desc_nested_added"   -> <<NestDoc(<<>>, ""), NestDoc([description |-> "first text"], "first text")>>
    [] e = "desc_nested_changed" -> <<NestDoc([description |-> "first text"], "first text"), NestDoc([description |-> "second text"], "second text")>>
    [] e = "param_type_and_default" -> <<WithParam([default |-> Str("a")]),
                                         [MetaBase EXCEPT !.params = <<ParamOf("query", [type |-> "integer", default |-> Num(4)], FALSE, "csv")>>]>>

\* unswapped pair and candidate requests
Pair(c) ==
  LET leaf == IF c.leaf = "-" THEN [type |-> "string"] ELSE Leaves[c.leaf] IN
  CASE c.kind = "leaf" ->
         LET nl == ApplyEdit(leaf, EditByName(c.edit)) IN
         [A |-> Embed(c.loc, leaf, TRUE, "csv"), B |-> Embed(c.loc, nl, TRUE, "csv"),
          reqs |-> Requests(c.loc, leaf, nl, "csv")]
    [] c.kind = "leaf2" ->
         LET nl == ApplyEdit(ApplyEdit(leaf, Edit2(c)[1]), Edit2(c)[2]) IN
         [A |-> Embed(c.loc, leaf, TRUE, "csv"), B |-> Embed(c.loc, nl, TRUE, "csv"),
          reqs |-> Requests(c.loc, leaf, nl, "csv")]
    [] c.kind = "required" ->
         [A |-> Embed(c.loc, leaf, FALSE, "csv"), B |-> Embed(c.loc, leaf, TRUE, "csv"),
          reqs |-> Requests(c.loc, leaf, leaf, "csv")]
    [] c.kind \in {"added_required", "added_optional"} ->
         \* candidate requests are those an old client sends: without the new element
         LET req == (c.kind = "added_required") IN
         IF c.loc \in ParamLocs \cup PathLevelLocs
           THEN [A |-> [Embed(c.loc, leaf, req, "csv") EXCEPT !.params = <<>>],
                 B |-> Embed(c.loc, leaf, req, "csv"), reqs |-> {ReqWithout(c.loc)}]
           ELSE [A |-> Put(BaseAOS, "body", ObjQ), B |-> Put(BaseAOS, "body", ObjQP(leaf, req)),
                 reqs |-> {ReqWithout("body_prop")}]
    [] c.kind = "endpoint" ->
         [A |-> BaseAOS, B |-> [BaseAOS EXCEPT !.present = FALSE], reqs |-> {ReqWithout("query")}]
    [] c.kind = "consumes" ->
         [A |-> [Embed("body_prop", leaf, FALSE, "csv") EXCEPT !.consumes = <<"application/json", "application/xml">>],
          B |-> Embed("body_prop", leaf, FALSE, "csv"),
          reqs |-> {[ReqWithout("body_prop") EXCEPT !.ctype = "application/xml"], ReqWithout("body_prop")}]
    [] c.kind = "location" ->
         [A |-> Embed("query", leaf, TRUE, "csv"), B |-> Embed(c.edit, leaf, TRUE, "csv"),
          reqs |-> Requests("query", leaf, leaf, "csv")]
    [] c.kind = "level_moved" ->
         [A |-> Embed(c.loc, leaf, FALSE, "csv"), B |-> Embed(PLoc(c.loc), leaf, FALSE, "csv"),
          reqs |-> Requests(PLoc(c.loc), leaf, leaf, "csv")]
    [] c.kind = "level_moved_added" ->
         LET b == Embed(PLoc(c.loc), leaf, FALSE, "csv") IN
         [A |-> Embed(c.loc, leaf, FALSE, "csv"),
          B |-> [b EXCEPT !.params = Append(@, [name |-> "extra", in |-> "query", required |-> FALSE, type |-> "string"])],
          reqs |-> Requests(PLoc(c.loc), leaf, leaf, "csv")]
    [] c.kind = "cf" ->
         [A |-> Embed(c.loc, leaf, TRUE, "csv"), B |-> Embed(c.loc, leaf, TRUE, c.edit),
          reqs |-> Requests(c.loc, leaf, leaf, "csv")]
    [] c.kind = "cf_from_none" ->
         [A |-> Embed(c.loc, leaf, TRUE, "none"), B |-> Embed(c.loc, leaf, TRUE, c.edit),
          reqs |-> Requests(c.loc, leaf, leaf, "csv")]
    [] c.kind = "resp_code" ->
         [A |-> RespAOS(PropsAB, HdrsXY, {"r200", "r404"}), B |-> RespAOS(PropsAB, HdrsXY, {"r200"}), reqs |-> {}]
    [] c.kind = "resp_prop" ->
         [A |-> RespAOS(PropsAB, HdrsXY, {"r200"}), B |-> RespAOS(PropsA, HdrsXY, {"r200"}), reqs |-> {}]
    [] c.kind = "resp_prop_added" ->
         [A |-> RespAOS(PropsA, HdrsXY, {"r200"}), B |-> RespAOS(PropsAB, HdrsXY, {"r200"}), reqs |-> {}]
    [] c.kind = "resp_header" ->
         [A |-> RespAOS(PropsAB, HdrsXY, {"r200"}), B |-> RespAOS(PropsAB, HdrsX, {"r200"}), reqs |-> {}]
    [] c.kind = "resp_enum" ->
         [A |-> RespAOS(PropsAB, HdrsXY, {"r200"}), B |-> RespAOS(PropsE, HdrsXY, {"r200"}), reqs |-> {}]
    [] c.kind = "meta" ->
         [A |-> MetaPair(c.edit)[1], B |-> MetaPair(c.edit)[2], reqs |-> {}]
    [] c.kind = "unref_allof_renamed" ->
         [A |-> [BaseAOS EXCEPT !.defs = [Account |-> [type |-> "object", properties |-> [q |-> [type |-> "string"]], allOf |-> <<[ref |-> "Base"]>>], Base |-> UnrefObj]],
          B |-> [BaseAOS EXCEPT !.defs = [Account |-> [type |-> "object", properties |-> [q |-> [type |-> "string"]], allOf |-> <<[ref |-> "Core"]>>], Core |-> UnrefObj]],
          reqs |-> {}]
    [] c.kind = "unref_allof_dropped" ->
         [A |-> [BaseAOS EXCEPT !.defs = [Account |-> [type |-> "object", properties |-> [q |-> [type |-> "string"]], allOf |-> <<[ref |-> "Base"]>>], Base |-> UnrefObj, Core |-> UnrefObj]],
          B |-> [BaseAOS EXCEPT !.defs = [Account |-> [type |-> "object", properties |-> [q |-> [type |-> "string"]], allOf |-> <<[ref |-> "Core"]>>], Core |-> UnrefObj]],
          reqs |-> {}]
    [] c.kind = "unref_ref_renamed" ->
         [A |-> [BaseAOS EXCEPT !.defs = [Account |-> [type |-> "object", properties |-> [owner |-> [ref |-> "Person"]]], Person |-> UnrefObj]],
          B |-> [BaseAOS EXCEPT !.defs = [Account |-> [type |-> "object", properties |-> [owner |-> [ref |-> "Zebra"]]], Zebra |-> UnrefObj]],
          reqs |-> {}]
    [] c.kind = "tuple_identity" ->
         [A |-> Put(BaseAOS, "body", TupleBody(<<>>)), B |-> Put(BaseAOS, "body", TupleBody(<<>>)), reqs |-> {}]
    [] c.kind = "tuple_edit" ->
         [A |-> Put(BaseAOS, "body", TupleBody(<<>>)), B |-> Put(BaseAOS, "body", TupleBody([maximum |-> 8])), reqs |-> {}]
    [] c.kind = "identity" ->
         [A |-> RespAOS(PropsAB, HdrsXY, {"r200"}), B |-> RespAOS(PropsAB, HdrsXY, {"r200"}), reqs |-> {}]

CaseAB(c) ==
  LET p == Pair(c) IN
  IF c.swap THEN [A |-> p.B, B |-> p.A, reqs |-> p.reqs] ELSE p

MustBreak(c) ==
  LET ab == CaseAB(c) IN
  RequestBreaking(ab.A, ab.B, ab.reqs) \/ ResponseBreaking(ab.A, ab.B)

SomeWitness(c) ==
  LET ab == CaseAB(c)
      ws == Witnesses(ab.A, ab.B, ab.reqs) IN
  IF ws = {} THEN [none |-> TRUE] ELSE CHOOSE r \in ws : TRUE

\* known-findings key: what was edited and where (stable across runs)
Signature(c) == c.kind \o ":" \o c.edit \o "(" \o c.leaf \o ")@" \o c.loc \o (IF c.swap THEN ":rev" ELSE "")

=============================================================================
