--------------------------- MODULE GenC12 ---------------------------
(* GEN config for C12: identity under semantically neutral edits, and totality on ordered pairs,
   over a pool of NPool valid documents (repository fixtures + documents of the DiffCases universe). *)
EXTENDS Integers, FiniteSets, Sequences, TLC, Json
CONSTANTS NPool, NPairPool
NeutralEdits == {"yaml", "reorder_keys", "reorder_params", "reorder_lists"}
VARIABLE c
Cases ==
  {[kind |-> "self", i |-> i, j |-> i, edits |-> {}] : i \in 1..NPool}
  \cup {[kind |-> "neutral", i |-> i, j |-> i, edits |-> es] : i \in 1..NPool, es \in (SUBSET NeutralEdits) \ {{}}}
  \cup {[kind |-> "pair", i |-> i, j |-> j, edits |-> {}] : i \in 1..NPairPool, j \in 1..NPairPool}
Init == c \in Cases
Next == UNCHANGED c
Emit == PrintT(<<"CASE", ToJson([c |-> c])>>)
=============================================================================
