--------------------------- MODULE DiffPipeline ---------------------------
(***************************************************************************)
(* The `swagger diff` command as a state machine (cmd/swagger/commands/    *)
(* diff.go Execute):                                                       *)
(*   Load -> Analyse -> ReadIgnore -> Filter -> Report(fmt, bonly) -> Exit *)
(* A difference is an opaque identity plus its compatibility class; the    *)
(* report is a bag of differences (the analyser can emit equal entries).   *)
(* C15 is stated on this machine; the MC config explores every report over *)
(* a small universe with every ignore bag; the trace spec binds CLI runs.  *)
(***************************************************************************)
EXTENDS Integers, Sequences, FiniteSets, TLC

CONSTANTS DiffU,        \* universe of differences: records [id, compat]
          MaxCopies     \* multiplicity bound of one difference in a report

VARIABLES phase, report, ignore, filtered, fmt, bonly, shown, exit
pvars == <<phase, report, ignore, filtered, fmt, bonly, shown, exit>>

Bags      == [DiffU -> 0..MaxCopies]
EmptyBag  == [d \in DiffU |-> 0]
Support(b) == {d \in DOMAIN b : b[d] > 0}
\* FilterIgnores: every entry that matches some ignore entry is removed (all copies)
Minus(b, ig) == [d \in DOMAIN b |-> IF d \in DOMAIN ig /\ ig[d] > 0 THEN 0 ELSE b[d]]
BreakingIn(b) == \E d \in Support(b) : d.compat = "Breaking"
Formats == {"txt", "json"}

PInit ==
  /\ phase = "idle" /\ report = EmptyBag /\ ignore = EmptyBag /\ filtered = EmptyBag
  /\ fmt = "txt" /\ bonly = FALSE /\ shown = EmptyBag /\ exit = 0

Analyse(r) ==
  /\ phase = "idle"
  /\ report' = r /\ phase' = "analysed"
  /\ UNCHANGED <<ignore, filtered, fmt, bonly, shown, exit>>

ReadIgnore(ig) ==
  /\ phase = "analysed"
  /\ ignore' = ig /\ phase' = "ignoring"
  /\ UNCHANGED <<report, filtered, fmt, bonly, shown, exit>>

Filter ==
  /\ phase = "ignoring"
  /\ filtered' = Minus(report, ignore) /\ phase' = "filtered"
  /\ UNCHANGED <<report, ignore, fmt, bonly, shown, exit>>

\* what a rendering shows: everything, or (text format with -b) only the breaking entries
Shown(b, f, bo) == IF bo /\ f = "txt" THEN [d \in DOMAIN b |-> IF d.compat = "Breaking" THEN b[d] ELSE 0] ELSE b
Report(f, bo) ==
  /\ phase = "filtered"
  /\ fmt' = f /\ bonly' = bo /\ shown' = Shown(filtered, f, bo) /\ phase' = "reported"
  /\ UNCHANGED <<report, ignore, filtered, exit>>

Exit ==
  /\ phase = "reported"
  /\ exit' = IF BreakingIn(filtered) THEN 1 ELSE 0
  /\ phase' = "done"
  /\ UNCHANGED <<report, ignore, filtered, fmt, bonly, shown>>

Restart ==
  /\ phase = "done" /\ PInit'

PNext ==
  \/ \E r \in Bags : Analyse(r)
  \/ \E ig \in Bags : ReadIgnore(ig)
  \/ Filter
  \/ \E f \in Formats, bo \in BOOLEAN : Report(f, bo)
  \/ Exit

PSpec == PInit /\ [][PNext]_pvars

(* ----- C15 as invariants of the design ----- *)
PTypeOK ==
  /\ phase \in {"idle", "analysed", "ignoring", "filtered", "reported", "done"}
  /\ report \in Bags /\ ignore \in Bags /\ filtered \in Bags /\ shown \in Bags

\* ignoring everything reported leaves nothing and exits 0
IgnoreAllEmpty ==
  (phase = "done" /\ Support(report) \subseteq Support(ignore)) => (Support(filtered) = {} /\ exit = 0)
\* ignoring a subset removes exactly those entries and nothing else
IgnoreExact ==
  phase \in {"filtered", "reported", "done"} =>
    \A d \in DiffU : filtered[d] = IF ignore[d] > 0 THEN 0 ELSE report[d]
\* exit status non-zero exactly when a non-ignored difference is Breaking, whatever the format
ExitCoherent ==
  phase = "done" => (exit # 0 <=> BreakingIn(filtered))
\* the renderings describe the same differences
FormatsAgree ==
  phase \in {"reported", "done"} =>
    /\ ~bonly => shown = filtered
    /\ (bonly /\ fmt = "txt") => Support(shown) = {d \in Support(filtered) : d.compat = "Breaking"}
=============================================================================
