--------------------------- MODULE Names ---------------------------
(***************************************************************************)
(* Spec names as sequences of word tokens and separators, the abstract Go  *)
(* identifier they are mangled to, and the life cycle                      *)
(*   Generate -> Build -> Inspect -> Route*                                *)
(* of a document that carries two names at one position (C08).            *)
(*                                                                         *)
(* GoName is an abstraction of swag.ToGoName / pascalize: words are split  *)
(* at separators and at case boundaries, capitalised (initialisms upper-   *)
(* cased) and concatenated.  It only classifies the generated pairs        *)
(* (expected collision / near miss) for coverage accounting: the verdict   *)
(* of C08 never relies on it - it is taken from the real generator:        *)
(*   generation succeeded => handlers, client methods and model types are  *)
(*   in bijection with operations and definitions, and every operation     *)
(*   routes to its own handler.                                            *)
(***************************************************************************)
EXTENDS Integers, Sequences, FiniteSets, TLC

Words == {"a", "b", "id", "get", "thing", "user"}
Forms == {"lower", "Capital", "UPPER"}
Seps  == {"-", "_", " ", ".", ""}
Initialisms == {"id"}

Render(w, f) ==
  CASE f = "lower" -> w
    [] f = "Capital" -> (CASE w = "a" -> "A" [] w = "b" -> "B" [] w = "id" -> "Id" [] w = "get" -> "Get" [] w = "thing" -> "Thing" [] w = "user" -> "User")
    [] f = "UPPER" -> (CASE w = "a" -> "A" [] w = "b" -> "B" [] w = "id" -> "ID" [] w = "get" -> "GET" [] w = "thing" -> "THING" [] w = "user" -> "USER")

\* a name: one or two words; with the empty separator the second word must start a new case run
Name1 == {[w1 |-> w, f1 |-> f, two |-> FALSE, sep |-> "", w2 |-> "a", f2 |-> "lower"] : w \in Words, f \in Forms}
Name2 == {[w1 |-> w, f1 |-> f, two |-> TRUE, sep |-> s, w2 |-> v, f2 |-> g] :
             w \in Words, f \in Forms, s \in Seps, v \in Words, g \in Forms}
NameOK(n) == n.two /\ n.sep = "" => (n.f2 = "Capital" /\ n.f1 # "UPPER")
Names == Name1 \cup {n \in Name2 : NameOK(n)}

Text(n) == IF n.two THEN Render(n.w1, n.f1) \o n.sep \o Render(n.w2, n.f2) ELSE Render(n.w1, n.f1)

\* abstract mangling: the sequence of (lower-cased) words
GoWords(n) == IF n.two THEN <<n.w1, n.w2>> ELSE <<n.w1>>
ExpectedCollision(a, b) == GoWords(a) = GoWords(b)

Positions == {"opid", "path", "def"}
SepOKAt(pos, n) == (pos = "path" /\ n.two) => n.sep \in {"-", "_", "."}

\* path SHAPES: pairs (or triples) of operations whose paths / methods are structurally related - the
\* root path, a static segment next to a path parameter, a path that is a prefix of another, the same
\* path under two methods, a base path.  Each operation must be routed to its own handler.
\* tags_selected: generation restricted with --tags to one tag; an operation carries SEVERAL tags and is selected
\* when any of them is the chosen one (first or not): every selected operation is generated and routed
\* pathitem_ref: a path item given as a $ref into a sibling file: the operations behind it are generated and routed
Shapes == {"root", "param_vs_static", "prefix", "methods", "basepath", "root_and_param", "tags_selected", "pathitem_ref"}
\* a definition / operation whose file name would end in a word the Go toolchain reads as an implicit build
\* constraint (GOOS / GOARCH / test): the generated file must still be part of the package
BuildSuffixes == {"linux", "windows", "amd64", "arm", "test", "ppc", "zos", "sparc", "s390", "riscv", "js", "wasm", "hurd", "nacl"}

\* ---- life cycle ---------------------------------------------------------------------------
VARIABLES phase, nops, ndefs, routes
lvars == <<phase, nops, ndefs, routes>>
LInit == phase = "init" /\ nops = 0 /\ ndefs = 0 /\ routes = <<>>
\* C08 as a predicate on what is observed after a successful generation
Bijection(o) ==
  /\ o.nHandlers = o.nOps /\ o.nClientMethods = o.nOps /\ o.nModelTypes = o.nDefs
RoutesDistinct(rs) == \A i, j \in DOMAIN rs : i # j => rs[i] # rs[j]
=============================================================================
