--------------------------- MODULE GenC04 ---------------------------
(* GEN config for C04: (a) every parameter descriptor with the values a conforming client may send,
   (b) every response layout with every scripted status code. *)
EXTENDS Request, Json
VARIABLE c
Init == c \in {[k |-> "param", p |-> p, L |-> "-"] : p \in ParamsC04} \cup {[k |-> "resp", p |-> <<>>, L |-> L] : L \in DOMAIN Layouts}
Next == UNCHANGED c
Emit ==
  IF c.k = "param"
    THEN PrintT(<<"CASE", ToJson([k |-> "param", p |-> c.p, vals |-> SendableValues(c.p)])>>)
    ELSE PrintT(<<"CASE", ToJson([k |-> "resp", L |-> c.L, codes |-> ScriptCodes(c.L), declared |-> Layouts[c.L].codes,
                                  default |-> Layouts[c.L].default, responses |-> RespSpec[c.L],
                                  scripts |-> [code \in ScriptCodes(c.L) |-> [payload |-> PayloadOf(c.L, code), headers |-> HeadersOf(c.L, code)]]])>>)
\* the design theorem of the request half
Lossless == c.k = "param" => RoundTripOK(c.p)
=============================================================================
