--------------------------- MODULE TraceRegen ---------------------------
(***************************************************************************)
(* Trace validation for C11: the events recorded while replaying TLC's     *)
(* histories against the real `swagger generate` binary are consumed by    *)
(* the actions of Regen; the effect of every run on the directory must be  *)
(* exactly Regen!GenEffect instantiated with the file set and contents     *)
(* observed from a fresh generation with the same inputs.                  *)
(***************************************************************************)
EXTENDS Regen

Trace == ndJsonDeserialize("trace.ndjson")

VARIABLES l, uadded, nrej
tvars == <<l, uadded, nrej, spec, files, last, hist>>

Ev == Trace[l]
IsEvent(e) == l <= Len(Trace) /\ Trace[l].ev = e /\ l' = l + 1
Reject(why) ==
  /\ PrintT(<<"REJECT", ToJson([line |-> l, b |-> Ev.b, step |-> Ev.step, why |-> why])>>)
  /\ nrej' = nrej + 1
Judge(why) == IF why = "ok" THEN nrej' = nrej ELSE Reject(why)

TInit == l = 1 /\ uadded = {} /\ nrej = 0 /\ spec = "" /\ files = <<>> /\ last = [a |-> "init"] /\ hist = <<>>

TReset ==
  /\ IsEvent("Reset")
  /\ files' = <<>> /\ uadded' = {} /\ spec' = "" /\ last' = [a |-> "init"]
  /\ UNCHANGED <<hist, nrej>>

Dom(f) == DOMAIN f
Same(f, g) == Dom(f) = Dom(g) /\ \A p \in Dom(f) : f[p] = g[p]

GenWhy ==
  LET R        == Dom(Ev.fresh)
      conf     == {Ev.conf[i] : i \in DOMAIN Ev.conf}
      F(p)     == Ev.fresh[p]
      C(p)     == p \in conf
      Exists(c) == TRUE        \* in a recorded directory every listed path exists
      expected == GenEffect(files, R, F, C, Exists, Ev.regen)
      after    == Ev.after
  IN
  IF \E p \in uadded : p \notin Dom(after) \/ after[p] # files[p]
    THEN "a file the generator did not produce was modified or removed"
  ELSE IF \E p \in Dom(files) : p \notin Dom(after)
    THEN "a file was removed"
  ELSE IF ~Ev.regen /\ \E p \in conf \cap Dom(files) : after[p] # files[p]
    THEN "the configure file was rewritten although it existed and regeneration was not requested"
  ELSE IF Ev.exit # 0 \/ Ev.freshExit # 0
    THEN "ok"         \* a failed run: only the guarantees above apply
  ELSE IF \E p \in Dom(after) \ R : p \notin Dom(files) \/ after[p] # files[p]
    THEN "a file outside the run's responsibility was created or changed"
  ELSE IF \E p \in R : p \notin Dom(after) \/ after[p] # expected[p]
    THEN "a file the run is responsible for differs from a fresh generation"
  ELSE IF ~Same(after, expected) THEN "directory differs from the specified effect"
  ELSE "ok"

TGen ==
  /\ IsEvent("Gen")
  /\ Judge(GenWhy)
  /\ files' = Ev.after
  /\ last' = [a |-> "gen", cmd |-> Ev.cmd, opt |-> Ev.opt]
  /\ UNCHANGED <<uadded, spec, hist>>

TUserAdd ==
  /\ IsEvent("UserAdd")
  /\ files' = Ev.after /\ uadded' = uadded \cup {Ev.path}
  /\ last' = [a |-> "user_add"]
  /\ UNCHANGED <<spec, hist, nrej>>

TUserEdit ==
  /\ IsEvent("UserEdit")
  /\ files' = Ev.after
  /\ last' = [a |-> "user_edit"]
  /\ UNCHANGED <<uadded, spec, hist, nrej>>

TSpecChange ==
  /\ IsEvent("SpecChange")
  /\ spec' = Ev.spec
  /\ last' = [a |-> "spec"]
  /\ UNCHANGED <<files, uadded, hist, nrej>>

TNext == TReset \/ TGen \/ TUserAdd \/ TUserEdit \/ TSpecChange
TSpec == TInit /\ [][TNext]_tvars
Consumed == TLCGet("stats").diameter - 1 = Len(Trace)
=============================================================================
