--------------------------- MODULE GenGoTypes ---------------------------
(* GEN configs for C16. Phase 1: one state per (field, shape) - the harness writes one annotated model
   per state. Phase 2: instances of the scanned definitions (read back from scanned.ndjson). *)
EXTENDS GoTypes, Json
VARIABLE c
ShapeFields == {[ty |-> B("int"), tag |-> "plain"], [ty |-> Ptr(B("string")), tag |-> "omitempty"], [ty |-> Slice(S("named_struct")), tag |-> "plain"]}
Init1 == c \in {[f |-> f, shape |-> "struct"] : f \in Fields} \cup {[f |-> f, shape |-> sh] : f \in ShapeFields, sh \in Shapes \ {"struct"}}
Next1 == UNCHANGED c
Emit1 == PrintT(<<"CASE", ToJson(c)>>)

\* ---- phase 2
Scanned == ndJsonDeserialize("scanned.ndjson")     \* line 1: [defs |-> name -> schema, models |-> <<names>>]
SDefs == Scanned[1].defs
Init2 == c \in {Scanned[1].models[i] : i \in DOMAIN Scanned[1].models}
Emit2 == IF c \in DOMAIN SDefs
           THEN PrintT(<<"CASE", ToJson([model |-> c, instances |-> {d \in InstancesOf(SDefs, SDefs[c], 3) : Valid(SDefs, SDefs[c], d)}])>>)
           ELSE TRUE
=============================================================================
