--------------------------- MODULE GenSecurity ---------------------------
(* GEN config for C06: for each global requirement (one generated server each) every operation-level
   requirement shape, with every assignment of credential classes to the schemes it mentions. *)
EXTENDS Security, Json

CONSTANT SchemeSeq        \* the schemes in a canonical order (alternatives are sets in the document)

MCSchemeSeq == <<"key", "basic", "oauth">>
MCSchemeSeq4 == <<"key", "basic", "oauth", "qkey">>
Idx == DOMAIN SchemeSeq
CanonAlts == {<<>>} \cup {<<SchemeSeq[i]>> : i \in Idx} \cup {<<SchemeSeq[p[1]], SchemeSeq[p[2]]>> : p \in {q \in Idx \X Idx : q[1] < q[2]}}
CanonReqs == {<<>>} \cup {<<a>> : a \in CanonAlts} \cup {p \in CanonAlts \X CanonAlts : p[1] # p[2]}

Globals == [ none  |-> [has |-> FALSE, alts |-> <<>>],
             gkey  |-> [has |-> TRUE,  alts |-> << <<SchemeSeq[1]>> >>],
             gandor|-> [has |-> TRUE,  alts |-> << <<SchemeSeq[2], SchemeSeq[3]>>, <<SchemeSeq[1]>> >>] ]

Eff(g, inherit, own) == IF inherit THEN (IF Globals[g].has THEN Globals[g].alts ELSE <<>>) ELSE own
Mentioned(rq) == UNION {SeqSet(rq[i]) : i \in DOMAIN rq}

ClassesOf(s) == IF s = "oauth" THEN {"absent", "valid", "invalid", "insufficient"} ELSE {"absent", "valid", "invalid"}
CredSets(rq) ==
  LET ms == Mentioned(rq) IN
  {[s \in Schemes |-> IF s \in ms THEN f[s] ELSE "absent"] : f \in {g \in [ms -> CredClasses] : \A s \in ms : g[s] \in ClassesOf(s)}}
  \cup {[s \in Schemes |-> IF s \in ms THEN "absent" ELSE "valid"]}   \* a credential nobody asked for

VARIABLE c
OpShapes == {[inherit |-> TRUE, own |-> <<>>]} \cup {[inherit |-> FALSE, own |-> r] : r \in CanonReqs}
Init == c \in {[g |-> g, inherit |-> o.inherit, own |-> o.own] : g \in DOMAIN Globals, o \in OpShapes}
Next == UNCHANGED c
Emit == PrintT(<<"CASE", ToJson([g |-> c.g, galts |-> Globals[c.g].alts, ghas |-> Globals[c.g].has,
                                 inherit |-> c.inherit, own |-> c.own,
                                 creds |-> CredSets(Eff(c.g, c.inherit, c.own))])>>)
\* the algorithm variables of Security are unused here
Dummy == req = <<>> /\ creds = <<>> /\ pc = "" /\ ai = 0 /\ si = 0 /\ lastErr = FALSE /\ anon = FALSE /\ result = "" /\ princ = ""
GInit == Init /\ Dummy
GNext == UNCHANGED <<c, req, creds, pc, ai, si, lastErr, anon, result, princ>>
=============================================================================
