--------------------------- MODULE BuildMatrix ---------------------------
(***************************************************************************)
(* C01: the life cycle  Generate(target, mode, options) -> Build  over the *)
(* space of documents x generation targets x spec pre-processing modes x   *)
(* option switches.  The specification contributes the input and           *)
(* configuration space and the life-cycle rule                             *)
(*     a run that exits successfully leaves code that builds;              *)
(*     a run that fails prints a diagnostic.                               *)
(* Whether code builds is decided by the Go compiler (observed) - the      *)
(* specification does not model Go's type checker.                         *)
(***************************************************************************)
EXTENDS Integers, Sequences, FiniteSets, TLC, Json, Randomization

Targets == {"model", "server", "client", "cli"}
Modes   == {"minimal", "full", "expand"}
Switches == {"skip_tag_packages", "strict_responders", "struct_tags", "principal"}
OptionSets == {{}} \cup {{s} : s \in Switches} \cup {Switches}

\* documents: the universes of the other families, and names at the eight name positions
\* streams: operations whose request or response bodies are byte streams (type file / string binary), at
\* every combination of response positions (2xx, non-2xx, default) - and next to typed JSON responses
DocKinds == {"models", "params", "responses", "rich", "nested", "wide", "streams"}
Positions == {"definition", "property", "parameter", "operationId", "tag", "enum", "header", "scheme"}
\* name classes (fixed menu of representatives, see lib/build_family.py): every class contains a letter
NameClasses == {"plain", "upper", "digits_first", "spaces", "dashes", "dots", "punct", "nonascii", "keyword_type", "keyword_func", "keyword_range",
                "predeclared_string", "predeclared_error", "predeclared_nil", "predeclared_len", "predeclared_true", "pkg_context", "pkg_errors",
                "member_Validate", "member_Context", "member_HTTPClient", "member_Error", "receiver_o", "receiver_m", "slash", "initialism", "camel", "underscore_first",
                "dollar", "single_letter", "go_test_suffix",
                \* names that become a Go keyword only once mangled to a variable name
                "keyword_cap_Type", "keyword_cap_Range", "keyword_cap_Default", "keyword_cap_Func", "keyword_cap_Map",
                \* characters that end a Go string literal (names are copied into struct tags and string constants)
                "backquote", "doublequote", "backslash",
                \* names of the packages the generator itself lays out (a tag becomes a package next to them)
                "pkg_models", "pkg_operations"}

Case(k, d, pos, cls, t, m, o) == [kind |-> k, doc |-> d, pos |-> pos, cls |-> cls, target |-> t, mode |-> m, opts |-> o]
DocCases == {Case("doc", d, "-", "-", t, m, o) : d \in DocKinds, t \in Targets, m \in Modes, o \in OptionSets}
DocOK(c) == (c.doc = "models" => c.target = "model" /\ c.opts = {}) /\ (c.target = "model" => c.opts = {})
            /\ (c.doc \in {"params"} => c.target # "model")
NameCases == {Case("name", "-", p, n, t, m, {}) : p \in Positions, n \in NameClasses, t \in Targets, m \in {"minimal"}}
             \cup {Case("name", "-", p, n, t, m, {}) : p \in {"definition", "property", "tag"}, n \in NameClasses, t \in {"server"}, m \in Modes}
NameOK(c) == c.target = "model" => c.pos \in {"definition", "property", "enum"}
\* two names at one position that a mangler may map to one Go identifier: the run must either fail with
\* a diagnostic or leave code that builds (de-conflicted names)
PairPositions == {"property", "parameter", "enum", "header", "tag"}
PairClasses == {"space_dash", "case", "underscore_dash", "initialism", "punct", "digit_prefix"}
PairCases == {Case("pair", "-", p, n, t, "minimal", {}) : p \in PairPositions, n \in PairClasses, t \in Targets}
AllCases == {c \in DocCases : DocOK(c)} \cup {c \in NameCases : NameOK(c)} \cup {c \in PairCases : NameOK(c)}

CONSTANT Sample
VARIABLES c, phase
Init == c \in (IF Sample = 0 THEN AllCases ELSE RandomSubset(Sample, AllCases)) /\ phase = "start"
Next == UNCHANGED <<c, phase>>
Emit == PrintT(<<"CASE", ToJson(c)>>)
=============================================================================
