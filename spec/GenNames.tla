--------------------------- MODULE GenNames ---------------------------
(* GEN config for C08: pairs of names at one position - all pairs that the abstract mangling maps to
   the same identifier, and near misses. *)
EXTENDS Names, Json, Randomization
CONSTANT NCollide, NMiss
VARIABLE c
Pairs(pos) == {p \in Names \X Names : Text(p[1]) # Text(p[2]) /\ SepOKAt(pos, p[1]) /\ SepOKAt(pos, p[2])}
Colliding(pos) == {p \in Pairs(pos) : ExpectedCollision(p[1], p[2])}
Missing(pos)   == {p \in Pairs(pos) : ~ExpectedCollision(p[1], p[2]) /\ Len(GoWords(p[1])) = Len(GoWords(p[2]))}
Init == c \in UNION {{[pos |-> pos, a |-> p[1], b |-> p[2]] : p \in RandomSubset(NCollide, Colliding(pos)) \cup RandomSubset(NMiss, Missing(pos))} : pos \in Positions}
Next == UNCHANGED c
Emit == PrintT(<<"CASE", ToJson([pos |-> c.pos, a |-> Text(c.a), b |-> Text(c.b), expectCollision |-> ExpectedCollision(c.a, c.b)])>>)
GInit == Init /\ LInit
GNext == UNCHANGED <<c, phase, nops, ndefs, routes>>
=============================================================================
