--------------------------- MODULE GenNames ---------------------------
(* GEN config for C08: pairs of names at one position - all pairs that the abstract mangling maps to
   the same identifier, and near misses. *)
EXTENDS Names, Json, Randomization
CONSTANT NCollide, NMiss
VARIABLE c
\* names with the same word sequence as n (every case form and separator)
Variants(n) ==
  IF n.two THEN {m \in {[w1 |-> n.w1, f1 |-> f, two |-> TRUE, sep |-> sp, w2 |-> n.w2, f2 |-> g] : f \in Forms, sp \in Seps, g \in Forms} : NameOK(m)}
           ELSE {[n EXCEPT !.f1 = f] : f \in Forms}
\* names that differ from n in the last word only
Neighbours(n) == IF n.two THEN {[n EXCEPT !.w2 = w] : w \in Words \ {n.w2}} ELSE {[n EXCEPT !.w1 = w] : w \in Words \ {n.w1}}
OKAt(pos, a, b) == Text(a) # Text(b) /\ SepOKAt(pos, a) /\ SepOKAt(pos, b)
Seeds == RandomSubset(NCollide, Names)
CasesAt(pos) ==
  LET col == {p \in UNION {{<<a, b>> : b \in Variants(a)} : a \in Seeds} : OKAt(pos, p[1], p[2])}
      mis == {p \in UNION {{<<a, b>> : b \in Neighbours(a)} : a \in Seeds} : OKAt(pos, p[1], p[2])} IN
  RandomSubset(IF NCollide < Cardinality(col) THEN NCollide ELSE Cardinality(col), col)
  \cup RandomSubset(IF NMiss < Cardinality(mis) THEN NMiss ELSE Cardinality(mis), mis)
ShapeCases == {[pos |-> "shape", shape |-> sh] : sh \in Shapes} \cup {[pos |-> "suffix", shape |-> w] : w \in BuildSuffixes}
Init == c \in UNION {{[pos |-> pos, a |-> p[1], b |-> p[2]] : p \in CasesAt(pos)} : pos \in Positions} \cup ShapeCases
Next == UNCHANGED c
Emit == IF c.pos \in {"shape", "suffix"} THEN PrintT(<<"CASE", ToJson([pos |-> c.pos, a |-> c.shape, b |-> "-", expectCollision |-> FALSE])>>)
        ELSE PrintT(<<"CASE", ToJson([pos |-> c.pos, a |-> Text(c.a), b |-> Text(c.b), expectCollision |-> ExpectedCollision(c.a, c.b)])>>)
GInit == Init /\ LInit
GNext == UNCHANGED <<c, phase, nops, ndefs, routes>>
=============================================================================
