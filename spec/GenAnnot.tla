--------------------------- MODULE GenAnnot ---------------------------
(* GEN configs for C17: (1) annotated programs - every dimension of the route / parameters grammar
   varied around a base operation plus a seeded sample of the full product; (2) comments made of
   arbitrary line-class sequences for robustness. *)
EXTENDS Annot, Json, Randomization
CONSTANTS NSample, NRobust
VARIABLE c

BlockSets == {{}} \cup {{b} : b \in Blocks} \cup {Blocks}
ParamSets == {{}} \cup {{k} : k \in ParamKinds \ {"path_int"}} \cup {{"q_string", "q_int_bounds", "header_str_len", "body_model"}, {"q_strings_items", "form_bool", "q_required"}, {"q_ptr_items", "q_strings_items"}}
WithPath(p, ks) == IF p = "/pets/{id}" THEN ks \cup {"path_int"} ELSE ks
OpsAll == {Op(m, p, tg, "op" \o m, rs, bl, WithPath(p, pk), sp) :
             m \in Methods, p \in PathsM, tg \in TagSets, rs \in RespMaps, bl \in BlockSets, pk \in ParamSets, sp \in Spellings}
Base == Op("GET", "/pets", <<"pets">>, "opGET", "ok_and_default", {}, {"q_string"}, "long")
OneDim ==
  {[Base EXCEPT !.method = m, !.id = "op" \o m] : m \in Methods}
  \cup {[Base EXCEPT !.path = p, !.params = WithPath(p, Base.params)] : p \in PathsM}
  \cup {[Base EXCEPT !.tags = t] : t \in TagSets} \cup {[Base EXCEPT !.resp = r] : r \in RespMaps}
  \cup {[Base EXCEPT !.blocks = b] : b \in BlockSets} \cup {[Base EXCEPT !.params = k] : k \in ParamSets}
  \cup {[Base EXCEPT !.spell = s, !.params = {"q_int_bounds", "header_str_len", "q_strings_items"}] : s \in Spellings}
Programs == {[op |-> o, merge |-> "none"] : o \in OneDim} \cup {[op |-> Base, merge |-> "unrelated"]}
            \cup {[op |-> [Base EXCEPT !.method = m, !.id = "op" \o m, !.params = {"q_string", "q_int_bounds"}], merge |-> "same_op"] : m \in Methods}
            \cup {[op |-> [Base EXCEPT !.blocks = b, !.params = pk], merge |-> "self"] :
                    b \in {{}, {"inline_params"}, {"inline_params", "consumes", "security"}}, pk \in {{}, {"q_string", "q_int_bounds"}}}
            \cup {[op |-> o, merge |-> "none"] : o \in RandomSubset(NSample, OpsAll)}
LineSeqs == UNION {[1..n -> LineClasses] : n \in 1..MaxLines}
Hosts == {"model", "route", "field", "package", "params"}
Init1 == c \in {[kind |-> "program", p |-> p] : p \in Programs}
Init2 == c \in {[kind |-> "robust", host |-> h, lines |-> ls] : h \in Hosts, ls \in RandomSubset(NRobust, LineSeqs)}
Emit ==
  IF c.kind = "program"
    THEN PrintT(<<"CASE", ToJson([kind |-> "program", op |-> [c.p.op EXCEPT !.blocks = c.p.op.blocks, !.params = c.p.op.params], merge |-> c.p.merge])>>)
    ELSE PrintT(<<"CASE", ToJson(c)>>)
Dummy == lines = <<>> /\ pos = 1 /\ mode = "header" /\ title = <<>> /\ desc = <<>> /\ tagsSeen = 0
GInit1 == Init1 /\ Dummy
GInit2 == Init2 /\ Dummy
GNext == UNCHANGED <<c, lines, pos, mode, title, desc, tagsSeen>>
=============================================================================
