--------------------------- MODULE GenBodies ---------------------------
(* GEN config for the body parameters of C03: a selection of ModelCases definitions used as inline
   body schemas, with their instances. *)
EXTENDS ModelCases, Json
BodyDefs == {"obj_req__top", "arr_int__top", "arr_count__top", "int_min__top", "obj_req__item", "str_enum__req",
             "obj_map__top", "num_xhi__opt", "str_date__req", "arr_unique__opt", "int_enum__mapval", "obj_allof__top"}
VARIABLE n
Init == n \in BodyDefs
Next == UNCHANGED n
Emit == PrintT(<<"CASE", ToJson([body |-> n, schema |-> DefSchema(n), instances |-> Instances(n)])>>)
=============================================================================
