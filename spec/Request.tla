--------------------------- MODULE Request ---------------------------
(***************************************************************************)
(* One call of a generated client against the generated server of the same *)
(* document (C04), as a life cycle                                         *)
(*   ClientEncode -> Route/Bind -> Handle -> WriteResponse -> ClientRead   *)
(* The request half is specified by SimpleParam (Encode is the inverse of  *)
(* Bind on representable values); the response half by the classification *)
(* of status codes against the declared responses.                         *)
(***************************************************************************)
EXTENDS ParamCases

\* Where the request media type of an operation with form parameters is declared: by the operation's own
\* `consumes`, or inherited from the document's `consumes` (while the document's `produces` is JSON).
\* The client must send, and the server accept, the same media type in both cases.
MediaDecl == {"operation", "document"}

(* ---- request half ---- *)
\* the values a conforming client may send for p: exactly the values Bind can produce
SendableValues(p) == {Bind(p, f).val : f \in {g \in Frags(p) : Bind(p, g).ok /\ Bind(p, g).set}}

\* what the client must put on the wire for v (one occurrence per item for multi)
RECURSIVE EncodeToks(_, _)
EncodeToks(p, v) ==
  IF Tag(v) # "arr" THEN (IF LexOf(v) = "" THEN <<>> ELSE <<LexOf(v)>>)
  ELSE JoinToks(Get(p, "cf", "csv"), [i \in DOMAIN Val(v) |-> EncodeToks(p.items, Val(v)[i])])
Wire(p, v) ==
  IF Tag(v) = "arr" /\ Get(p, "cf", "csv") = "multi"
    THEN [present |-> TRUE, vals |-> [i \in DOMAIN Val(v) |-> EncodeToks(p.items, Val(v)[i])]]
    ELSE [present |-> TRUE, vals |-> <<EncodeToks(p, v)>>]
\* design theorem checked by TLC on the whole universe: decoding the encoding gives the value back
RoundTripOK(p) == \A v \in SendableValues(p) : LET b == Bind(p, Wire(p, v)) IN b.ok /\ b.set /\ b.val = v

(* ---- response half ---- *)
Layouts ==
  [ r1 |-> [codes |-> {200, 201, 404}, default |-> TRUE],
    r2 |-> [codes |-> {201, 400},      default |-> FALSE],
    r3 |-> [codes |-> {},              default |-> TRUE],
    r4 |-> [codes |-> {204},           default |-> FALSE],
    r5 |-> [codes |-> {404},           default |-> FALSE],       \* only an error response is declared
    r6 |-> [codes |-> {200, 300},      default |-> FALSE] ]      \* a declared code just outside the success class
ScriptCodes(L) == Layouts[L].codes \cup {299, 302, 418, 500}

IsSuccess(code) == code >= 200 /\ code <= 299

\* what the statement requires of the client for a response with this status code
Class(L, code) ==
  LET lay == Layouts[L] IN
  IF code \in lay.codes
    THEN [typed |-> TRUE, kinds |-> {IF IsSuccess(code) THEN "result" ELSE "error"}, genericOK |-> FALSE]
  ELSE IF lay.default
    \* latitude UndeclaredSuccessWithDefault: the facade wraps the typed default in a generic API error
    THEN [typed |-> TRUE, kinds |-> IF IsSuccess(code) THEN {"result", "error"} ELSE {"error"}, genericOK |-> IsSuccess(code)]
  ELSE [typed |-> FALSE, kinds |-> {"error"}, genericOK |-> TRUE]

ObjSchema == [type |-> "object", properties |-> [a |-> [type |-> "string"], n |-> [type |-> "integer"]]]
MsgSchema == [type |-> "object", properties |-> [msg |-> [type |-> "string"]]]
R1Headers == ("X-Int" :> [type |-> "integer"]) @@ ("X-Csv" :> [type |-> "array", items |-> [type |-> "string"]])
             @@ ("X-Date" :> [type |-> "string", format |-> "date"])
\* the declared responses of each layout, in the abstract encoding the harness materialises
RespSpec ==
  [ r1 |-> [r200 |-> [description |-> "ok", schema |-> ObjSchema, headers |-> R1Headers], r201 |-> [description |-> "created"],
            r404 |-> [description |-> "nf", schema |-> MsgSchema], default |-> [description |-> "err", schema |-> MsgSchema]],
    r2 |-> [r201 |-> [description |-> "created"], r400 |-> [description |-> "bad", schema |-> [type |-> "string"]]],
    r3 |-> [default |-> [description |-> "any", schema |-> ObjSchema]],
    r4 |-> [r204 |-> [description |-> "nc"]],
    r5 |-> [r404 |-> [description |-> "nf", schema |-> MsgSchema]],
    r6 |-> [r200 |-> [description |-> "ok", schema |-> ObjSchema], r300 |-> [description |-> "choices", schema |-> MsgSchema]] ]

ObjPayload == Obj([a |-> Str("ab"), n |-> Num(6)])
MsgPayload == Obj([msg |-> Str("abc")])
PayloadOf(L, code) ==
  CASE L = "r1" /\ code = 200 -> ObjPayload
    [] L = "r1" /\ code = 404 -> MsgPayload
    [] L = "r1" /\ code \notin {200, 201, 404} -> MsgPayload       \* default
    [] L = "r2" /\ code = 400 -> Str("abc")
    [] L = "r3" -> ObjPayload                                        \* default
    [] L = "r5" /\ code = 404 -> MsgPayload
    [] L = "r6" /\ code = 200 -> ObjPayload
    [] L = "r6" /\ code = 300 -> MsgPayload
    [] OTHER -> Null
HeadersOf(L, code) ==
  IF L = "r1" /\ code = 200
    THEN [xint |-> Num(10), xcsv |-> Arr(<<Str("a"), Str("ab")>>), xdate |-> Str("2020-01-02")]
    ELSE <<>>
=============================================================================
