--------------------------- MODULE GoSwagger ---------------------------
(***************************************************************************)
(* The toolkit as one state machine: the frame in which the family modules *)
(* live.  The state is the user's WORKSPACE                                *)
(*                                                                         *)
(*   docs     name -> document file (what it means, how it is rendered,    *)
(*            how its $refs are laid out)                                  *)
(*   target   the generation target directory: which artefacts it holds,   *)
(*            from which document they were generated, and the user's own  *)
(*            files                                                        *)
(*   embOrig, embFlat   the two documents a generated server embeds        *)
(*   report, exit       output and exit status of the last command         *)
(*                                                                         *)
(* and every CLI command is one action.  The actions are abstract here (a  *)
(* document is an opaque MEANING with a rendering and a $ref layout); each *)
(* is REFINED by a family module that is model-checked on its own and      *)
(* bound to the code by its own trace spec:                                *)
(*                                                                         *)
(*   GenerateServer/Client/Models     Regen (C11), BuildMatrix (C01),      *)
(*                                    Names (C08), GoLex (C09), Embed (C10)*)
(*   the generated program            JsonSchema (C02 C05), SimpleParam    *)
(*                                    and Request (C03 C04), Security (C06)*)
(*   GenerateSpecFromModels           Annot (C17), GoTypes (C16),          *)
(*                                    JsonSchema!SchemaDiffs (C18)         *)
(*   Flatten / Expand / Mixin         YamlScalars (C19)                    *)
(*   Diff                             DiffModel, DiffPipeline (C12-C15)    *)
(*   every command                    Determinism (C07)                    *)
(*                                                                         *)
(* The frame itself is model-checked with small constants (MCGoSwagger)    *)
(* and bound to the real CLI by TraceGoSwagger: TLC generates command      *)
(* histories (hist), the harness executes them with the real `swagger`     *)
(* binary in one workspace and logs, after every command, the abstraction  *)
(* of every file; the trace spec replays the same action and compares.     *)
(* The frame states how the commands COMPOSE - which artefacts a command   *)
(* reads and writes, that a document's meaning is invariant under the      *)
(* format-changing and $ref-restructuring commands in any order, that what *)
(* a server embeds is the document it was generated from whatever chain of *)
(* commands produced that document, that diff of two renderings of one     *)
(* document is empty, that no command touches the user's files, that every *)
(* document any chain of commands leaves in the workspace validates.       *)
(***************************************************************************)
EXTENDS Integers, Sequences, FiniteSets, TLC, Json

CONSTANTS Meanings,       \* what a document denotes once $refs are resolved (opaque)
          DocNames,       \* names of document files in the workspace
          UserFiles,
          MaxSteps

Formats == {"json", "yaml"}
\* "refs": schemas shared through #/definitions; "inline": every $ref replaced by its target
Layouts == {"refs", "inline"}

Doc(m, f, l) == [meaning |-> m, fmt |-> f, layout |-> l]
NoDoc == [meaning |-> "none", fmt |-> "json", layout |-> "refs"]
\* two files are JSON-equal documents iff they have the same content
Content(d) == <<d.meaning, d.layout>>

VARIABLES docs,       \* DocNames -> document or NoDoc
          target,     \* [models, server, client : Content or <<"none">>, user : set of user files]
          embOrig,    \* Content of the original document a generated server embeds, or <<"none">>
          embFlat,    \* meaning of the flattened document that drives the generated server, or "none"
          report,     \* [kind |-> "none" | "empty" | "diff" | "layout" | "valid"]
          exit,       \* exit status of the last command
          hist
fvars == <<docs, target, embOrig, embFlat, report, exit, hist>>

Nothing == <<"none">>
Present(n) == docs[n].meaning # "none"

Init ==
  /\ docs \in {d \in [DocNames -> {Doc(m, f, "refs") : m \in Meanings, f \in Formats} \cup {NoDoc}] : \E n \in DocNames : d[n].meaning # "none"}
  /\ target = [models |-> Nothing, server |-> Nothing, client |-> Nothing, user |-> {}]
  /\ embOrig = Nothing /\ embFlat = "none" /\ report = [kind |-> "none"] /\ exit = 0
  /\ hist = <<[a |-> "init", docs |-> docs]>>

Room == Len(hist) <= MaxSteps
Log(e) == hist' = Append(hist, e)

\* ---- spec -> spec commands: the meaning is preserved; format as requested; layout per command ----
Transform(cmd, src, dst, f, l) ==
  /\ Room /\ Present(src)
  /\ docs' = [docs EXCEPT ![dst] = Doc(docs[src].meaning, f, l)]
  /\ exit' = 0 /\ Log([a |-> cmd, src |-> src, dst |-> dst, fmt |-> f])
  /\ UNCHANGED <<target, embOrig, embFlat, report>>
\* minimal flattening of a self-contained document leaves its $ref layout alone
Flatten(src, dst, f) == Transform("flatten", src, dst, f, docs[src].layout)
Expand(src, dst, f)  == Transform("expand", src, dst, f, "inline")
\* mixin: the primary document extended by the others; with an empty secondary it is the identity
Mixin(src, dst, f)   == Transform("mixin", src, dst, f, docs[src].layout)

\* ---- generation ----
Generate(kind, src) ==
  /\ Room /\ Present(src)
  /\ target' = [target EXCEPT !.models = Content(docs[src]),
                              !.server = IF kind = "server" THEN Content(docs[src]) ELSE @,
                              !.client = IF kind = "client" THEN Content(docs[src]) ELSE @]
  /\ embOrig' = IF kind = "server" THEN Content(docs[src]) ELSE embOrig      \* the embedded spec is the input spec (C10)
  /\ embFlat' = IF kind = "server" THEN docs[src].meaning ELSE embFlat
  /\ exit' = 0 /\ Log([a |-> "generate", kind |-> kind, src |-> src])
  /\ UNCHANGED <<docs, report>>
UserAddsFile(u) ==
  /\ Room /\ u \notin target.user
  /\ target' = [target EXCEPT !.user = @ \cup {u}]
  /\ Log([a |-> "user_add", u |-> u])
  /\ UNCHANGED <<docs, embOrig, embFlat, report, exit>>

\* ---- code -> spec (C16 C17 C18): scanning the generated models gives back the definitions ----
\* (refined by JsonSchema!SchemaDiffs; not part of the replayed histories: the scanned document has
\* definitions only, its relation to the input is C18's subject)
GenerateSpecFromModels(dst, f) ==
  /\ Room /\ target.models # Nothing
  /\ docs' = [docs EXCEPT ![dst] = Doc(target.models[1], f, "refs")]
  /\ exit' = 0 /\ Log([a |-> "generate_spec", dst |-> dst, fmt |-> f])
  /\ UNCHANGED <<target, embOrig, embFlat, report>>

\* ---- diff (C12-C15): a function of the two documents ----
\* JSON-equal documents: empty report, exit 0 (C12).  Different meanings: a report (the meanings of
\* the model differ by a breaking change: exit non-zero, C13/C15).  Same meaning in different $ref
\* layouts: the tool compares named and anonymous schemas as different types - a report.
\* Breaks: pairs of meanings <<old, new>> where new rejects a request old accepted (C13): exit non-zero.
\* Across $ref layouts the exit status is not specified by the frame.
CONSTANT Breaks
DiffExits(da, db) ==
  IF Content(da) = Content(db) THEN {0}
  ELSE IF da.layout # db.layout THEN {0, 1}
  ELSE IF <<da.meaning, db.meaning>> \in Breaks THEN {1} ELSE {0}
Diff(a, b) ==
  /\ Room /\ Present(a) /\ Present(b)
  /\ report' = IF Content(docs[a]) = Content(docs[b]) THEN [kind |-> "empty"]
               ELSE IF docs[a].meaning = docs[b].meaning THEN [kind |-> "layout"]
               ELSE [kind |-> "diff"]
  /\ exit' \in DiffExits(docs[a], docs[b])
  /\ Log([a |-> "diff", x |-> a, y |-> b])
  /\ UNCHANGED <<docs, target, embOrig, embFlat>>

\* ---- validate: every document of the workspace is a valid Swagger 2.0 document - the initial ones by
\* construction, the others because the spec -> spec commands preserve validity; nothing is written
Validate(src) ==
  /\ Room /\ Present(src)
  /\ report' = [kind |-> "valid"] /\ exit' = 0
  /\ Log([a |-> "validate", src |-> src])
  /\ UNCHANGED <<docs, target, embOrig, embFlat>>

Replayable ==
  \/ \E s, d \in DocNames, f \in Formats : Flatten(s, d, f) \/ Expand(s, d, f) \/ Mixin(s, d, f)
  \/ \E s \in DocNames : Validate(s)
  \/ \E s \in DocNames : \E k \in {"models", "server", "client"} : Generate(k, s)
  \/ \E a, b \in DocNames : Diff(a, b)
  \/ \E u \in UserFiles : UserAddsFile(u)
Next == Replayable \/ \E d \in DocNames, f \in Formats : GenerateSpecFromModels(d, f)

Spec == Init /\ [][Next]_fvars
ReplaySpec == Init /\ [][Replayable]_fvars

(* ---- properties of the frame ---- *)
\* no command invents a meaning
Closed == /\ \A n \in DocNames : docs[n].meaning \in Meanings \cup {"none"}
          /\ embFlat \in Meanings \cup {"none"}
\* C10 at frame level: what the server embeds is the document it was generated from
EmbeddedIsServerSpec == target.server # Nothing => embOrig = target.server /\ embFlat = target.server[1]
\* C11 at frame level: user files only grow
UserFilesKept == [][target.user \subseteq target'.user]_fvars
\* C12 at frame level: an empty report iff JSON-equal documents; exit status coherent with the report
ReportCoherent == hist[Len(hist)].a = "diff" =>
                    (report.kind = "empty" => exit = 0)
\* spec -> spec commands never invent a meaning, and write one document only
MeaningPreserved ==
  [][\A n \in DocNames : docs'[n] # docs[n] => docs'[n].meaning \in {docs[m].meaning : m \in DocNames} \cup {target.models[1]}]_fvars
OneDocWritten == [][Cardinality({n \in DocNames : docs'[n] # docs[n]}) <= 1]_fvars
MCBreaks == {<<"m1", "m2">>}
\* histories for replay: printed when complete
EmitHist == Len(hist) = MaxSteps + 1 => PrintT(<<"CASE", ToJson([hist |-> hist])>>)
=============================================================================
