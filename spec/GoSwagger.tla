--------------------------- MODULE GoSwagger ---------------------------
(***************************************************************************)
(* The toolkit as one state machine: the frame in which the family modules *)
(* live.  The state is the user's WORKSPACE                                *)
(*                                                                         *)
(*   docs     name -> abstract document (a record of sections)             *)
(*   target   the generation target directory (Regen: path -> content)     *)
(*   pkgs     Go packages with swagger annotations (name -> document they  *)
(*            denote, cf. Annot!ExpectedOp / GoTypes)                      *)
(*   reports  the outputs of `diff` (DiffPipeline)                         *)
(*   server   what a compiled generated server embeds and enforces         *)
(*            (Embed, Security, SimpleParam/Request)                       *)
(*                                                                         *)
(* and every CLI command / library entry point is one action.  The actions *)
(* are abstract here (a document is an opaque value with the few           *)
(* attributes the commands care about); each is REFINED by a family module *)
(* that is model-checked on its own and bound to the code by a trace spec: *)
(*                                                                         *)
(*   GenerateServer/Client/Model/...  Regen (C11), BuildMatrix (C01),      *)
(*                                    Names (C08), GoLex (C09), Embed (C10)*)
(*   the generated program            JsonSchema (C02 C05), SimpleParam    *)
(*                                    and Request (C03 C04), Security (C06)*)
(*   GenerateSpec                     Annot (C17), GoTypes (C16),          *)
(*                                    JsonSchema!SchemaDiffs (C18)         *)
(*   Flatten / Expand / Mixin / Init  YamlScalars (C19)                    *)
(*   Diff                             DiffModel, DiffPipeline (C12-C15)    *)
(*   every command                    Determinism (C07)                    *)
(*                                                                         *)
(* The frame itself is model-checked with small constants (MCGoSwagger):   *)
(* it states how the commands compose - which artefacts a command reads    *)
(* and writes, that no command but a generation touches the target, that   *)
(* a document's meaning is invariant under the format-changing and         *)
(* $ref-restructuring commands, that the round trips                       *)
(*   spec -> generate model -> generate spec      (C18)                    *)
(*   spec -> generate server -> embedded spec     (C10)                    *)
(*   doc  -> flatten/expand -> doc                (C19 / growth item)      *)
(* return to the same meaning, and that diff of two documents with the     *)
(* same meaning is empty (C12).                                            *)
(***************************************************************************)
EXTENDS Integers, Sequences, FiniteSets, TLC

CONSTANTS Meanings,       \* what a document denotes once $refs are resolved (opaque)
          DocNames,       \* names of document files in the workspace
          MaxSteps

Formats == {"json", "yaml"}
Layouts == {"asis", "flat", "expanded"}          \* how the $refs are organised

\* a document: its meaning, its rendering, its $ref layout, and whether it was produced by the scanner
Doc(m, f, l) == [meaning |-> m, fmt |-> f, layout |-> l]
NoDoc == [meaning |-> "none", fmt |-> "json", layout |-> "asis"]

VARIABLES docs,       \* DocNames -> document or NoDoc
          target,     \* [models |-> meaning or "none", server |-> ..., client |-> ..., user |-> set of user files]
          embedded,   \* the document a compiled generated server embeds / serves
          report,     \* last diff report: [kind |-> "none" | "empty" | "diff", old, new]
          exit,       \* exit status of the last command
          steps
fvars == <<docs, target, embedded, report, exit, steps>>

Present(n) == docs[n].meaning # "none"

Init ==
  /\ docs \in {d \in [DocNames -> {Doc(m, f, "asis") : m \in Meanings, f \in Formats} \cup {NoDoc}] : \E n \in DocNames : d[n].meaning # "none"}
  /\ target = [models |-> "none", server |-> "none", client |-> "none", user |-> {}]
  /\ embedded = "none" /\ report = [kind |-> "none"] /\ exit = 0 /\ steps = 0

Tick == steps < MaxSteps /\ steps' = steps + 1

\* ---- spec -> spec commands: the meaning is preserved, format / layout as requested (C19) ----
Transform(src, dst, f, l) ==
  /\ Tick /\ Present(src)
  /\ docs' = [docs EXCEPT ![dst] = Doc(docs[src].meaning, f, l)]
  /\ exit' = 0 /\ UNCHANGED <<target, embedded, report>>
Flatten(src, dst, f) == Transform(src, dst, f, "flat")
Expand(src, dst, f)  == Transform(src, dst, f, "expanded")
\* mixin: the primary document extended by the others; with one input it is the identity on the meaning
Mixin(src, dst, f)   == Transform(src, dst, f, docs[src].layout)

\* ---- generation (C01 C08 C09 C10 C11) ----
GenerateModels(src) ==
  /\ Tick /\ Present(src)
  /\ target' = [target EXCEPT !.models = docs[src].meaning]
  /\ exit' = 0 /\ UNCHANGED <<docs, embedded, report>>
GenerateServer(src) ==
  /\ Tick /\ Present(src)
  /\ target' = [target EXCEPT !.models = docs[src].meaning, !.server = docs[src].meaning]
  /\ embedded' = docs[src].meaning                \* the embedded spec is the input spec (C10)
  /\ exit' = 0 /\ UNCHANGED <<docs, report>>
GenerateClient(src) ==
  /\ Tick /\ Present(src)
  /\ target' = [target EXCEPT !.models = docs[src].meaning, !.client = docs[src].meaning]
  /\ exit' = 0 /\ UNCHANGED <<docs, embedded, report>>
UserAddsFile(u) ==
  /\ Tick /\ target' = [target EXCEPT !.user = @ \cup {u}]
  /\ UNCHANGED <<docs, embedded, report, exit>>

\* ---- code -> spec (C16 C17 C18): scanning the generated models gives back the definitions ----
GenerateSpecFromModels(dst, f) ==
  /\ Tick /\ target.models # "none"
  /\ docs' = [docs EXCEPT ![dst] = Doc(target.models, f, "asis")]
  /\ exit' = 0 /\ UNCHANGED <<target, embedded, report>>

\* ---- diff (C12-C15): a function of the two meanings; empty iff they are equal ----
Diff(a, b) ==
  /\ Tick /\ Present(a) /\ Present(b)
  /\ report' = IF docs[a].meaning = docs[b].meaning THEN [kind |-> "empty"] ELSE [kind |-> "diff", old |-> docs[a].meaning, new |-> docs[b].meaning]
  /\ exit' = IF docs[a].meaning = docs[b].meaning THEN 0 ELSE 1      \* breaking-ness refined by DiffModel
  /\ UNCHANGED <<docs, target, embedded>>

Next ==
  \/ \E s, d \in DocNames, f \in Formats : Flatten(s, d, f) \/ Expand(s, d, f) \/ Mixin(s, d, f)
  \/ \E s \in DocNames : GenerateModels(s) \/ GenerateServer(s) \/ GenerateClient(s)
  \/ \E d \in DocNames, f \in Formats : GenerateSpecFromModels(d, f)
  \/ \E a, b \in DocNames : Diff(a, b)
  \/ \E u \in {"u1", "u2"} : UserAddsFile(u)

Spec == Init /\ [][Next]_fvars

(* ---- properties of the frame ---- *)
\* no command invents a meaning: every document / artefact denotes one of the initial meanings
InitialMeanings == {m \in Meanings : TRUE}
Closed == /\ \A n \in DocNames : docs[n].meaning \in Meanings \cup {"none"}
          /\ target.models \in Meanings \cup {"none"} /\ embedded \in Meanings \cup {"none"}
\* C10 at frame level: what the server embeds is the meaning of the document it was generated from
EmbeddedIsServerSpec == target.server # "none" => embedded = target.server
\* C11 at frame level: user files only grow
UserFilesKept == [][target.user \subseteq target'.user]_fvars
\* C12 at frame level: an empty report iff equal meanings; exit status coherent with the report (C15)
ReportCoherent == report.kind = "diff" => report.old # report.new
\* C19 at frame level: spec -> spec commands never change a meaning that other documents have
\* (stated as an action property: the meaning written is the meaning read)
MeaningPreserved ==
  [][\A n \in DocNames : docs'[n] # docs[n] => docs'[n].meaning \in {docs[m].meaning : m \in DocNames} \cup {target.models}]_fvars
=============================================================================
