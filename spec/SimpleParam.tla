--------------------------- MODULE SimpleParam ---------------------------
(***************************************************************************)
(* Swagger 2.0 simple (non-body) parameters on the wire.                   *)
(*                                                                         *)
(* A raw occurrence is a sequence of tokens: item tokens (lexemes) and     *)
(* separator tokens.  The materialiser concatenates the tokens; Bind       *)
(* splits them according to collectionFormat, converts every item by       *)
(* (type, format) and validates it with JsonSchema.                        *)
(* A parameter descriptor is a record (DOMAIN = keywords present):         *)
(*   name, in, required, type, format, enum, minimum ..., items, cf,       *)
(*   allowEmpty, default                                                   *)
(* A request fragment for one parameter is                                 *)
(*   [present |-> BOOLEAN, vals |-> Seq(raw occurrence)]                   *)
(***************************************************************************)
EXTENDS JsonSchema

Seps == {",", "|", " ", "TAB"}
SepOf(cf) == CASE cf = "ssv" -> " " [] cf = "tsv" -> "TAB" [] cf = "pipes" -> "|" [] OTHER -> ","

(***************************************************************************)
(* Lexeme tables: what strconv / strfmt make of an item lexeme.  Abstract  *)
(* numbers are doubled (see JsonSchema).  Lexemes not in a table do not    *)
(* convert.                                                                *)
(***************************************************************************)
IntLex == [x \in {"0", "1", "2", "3", "4", "5", "6", "7", "-1", "12"} |->
             CASE x = "0" -> 0 [] x = "1" -> 2 [] x = "2" -> 4 [] x = "3" -> 6 [] x = "4" -> 8
               [] x = "5" -> 10 [] x = "6" -> 12 [] x = "7" -> 14 [] x = "-1" -> -2 [] x = "12" -> 24]
NumLex == [x \in DOMAIN IntLex \cup {"1.5", "2.5", "0.5", "3.5"} |->
             IF x \in DOMAIN IntLex THEN IntLex[x]
             ELSE CASE x = "1.5" -> 3 [] x = "2.5" -> 5 [] x = "0.5" -> 1 [] x = "3.5" -> 7]
BoolLexTrue  == {"true", "1"}
BoolLexFalse == {"false", "0"}

\* the concatenation of a token sequence (the token TAB is a tab character: one character for minLength /
\* maxLength, and the value the handler must receive when it stays inside an item; inside the model
\* it only matters that it is not a lexeme of any table)
RECURSIVE Cat(_)
Cat(toks) == IF toks = <<>> THEN "" ELSE (IF Head(toks) = "TAB" THEN "\t" ELSE Head(toks)) \o Cat(Tail(toks))

\* split a token sequence at separator token sep; pieces are token sequences
RECURSIVE SplitAt(_, _, _)
SplitAt(toks, sep, cur) ==
  IF toks = <<>> THEN <<cur>>
  ELSE IF Head(toks) = sep THEN <<cur>> \o SplitAt(Tail(toks), sep, <<>>)
  ELSE SplitAt(Tail(toks), sep, Append(cur, Head(toks)))

\* swag.SplitByFormat trims white space around every piece and drops empty pieces
\* (named deviation SplitTrimsAndDropsEmpty; a dependency, not under test)
RECURSIVE TrimL(_)
TrimL(p) == IF p # <<>> /\ Head(p) \in {" ", "TAB"} THEN TrimL(Tail(p)) ELSE p
RECURSIVE TrimR(_)
TrimR(p) == IF p # <<>> /\ p[Len(p)] \in {" ", "TAB"} THEN TrimR(SubSeq(p, 1, Len(p) - 1)) ELSE p
Trim(p) == TrimR(TrimL(p))

SelectNonEmpty(q) == SelectSeq(q, LAMBDA p : p # <<>>)
SplitBy(cf, toks) ==
  IF toks = <<>> THEN <<>>
  ELSE LET pieces == SplitAt(toks, SepOf(cf), <<>>)
       IN SelectNonEmpty([i \in DOMAIN pieces |-> Trim(pieces[i])])

Fail   == [ok |-> FALSE]
Ok(v)  == [ok |-> TRUE, set |-> TRUE, val |-> v]
Unset  == [ok |-> TRUE, set |-> FALSE]

\* Convert one lexeme (the concatenation of an item's tokens) by declared type.
\* StrictBool: the statement's reading ("type ... of each value").
Convert(ty, lex) ==
  CASE ty = "integer" -> IF lex \in DOMAIN IntLex THEN Ok(Num(IntLex[lex])) ELSE Fail
    [] ty = "number"  -> IF lex \in DOMAIN NumLex THEN Ok(Num(NumLex[lex])) ELSE Fail
    [] ty = "boolean" -> IF lex \in BoolLexTrue THEN Ok(Bool(TRUE))
                         ELSE IF lex \in BoolLexFalse THEN Ok(Bool(FALSE)) ELSE Fail
    [] OTHER          -> Ok(Str(lex))

\* the schema view of a parameter / items descriptor (keywords shared with JsonSchema)
SchemaKeys == {"type", "format", "enum", "minimum", "maximum", "exclusiveMinimum", "exclusiveMaximum",
               "multipleOf", "minLength", "maxLength", "pattern", "minItems", "maxItems", "uniqueItems"}
AsSchema(p) == [k \in (DOMAIN p) \cap SchemaKeys |-> p[k]]

\* x-go-enum-ci: true on a parameter (or items) makes its enum case-insensitive (documented extension); false, or no
\* extension, leaves the enum as Swagger defines it.  "AB" is the only lexeme of the universe with capitals.
FoldStr(x) == IF x = "AB" THEN "ab" ELSE x
ValidP(p, v) ==
  IF Get(p, "enumCI", FALSE) /\ Tag(v) = "str" THEN Valid(<<>>, AsSchema(p), Str(FoldStr(Val(v)))) ELSE Valid(<<>>, AsSchema(p), v)

DefaultOrUnset(p) == IF Has(p, "default") THEN Ok(p.default) ELSE Unset

\* items: p is an array descriptor (type = "array", items, cf); pieces are token sequences
RECURSIVE BindItems(_, _)
BindItems(p, pieces) ==
  LET it == p.items
      One(piece) ==
        IF it.type = "array"
          THEN BindItems(it, SplitBy(Get(it, "cf", "csv"), piece))
          ELSE LET c == Convert(it.type, Cat(piece)) IN
               IF ~c.ok THEN Fail
               ELSE IF ValidP(it, c.val) THEN c ELSE Fail
      rs == [i \in DOMAIN pieces |-> One(pieces[i])]
  IN IF \E i \in DOMAIN rs : ~rs[i].ok THEN Fail
     ELSE LET arr == Arr([i \in DOMAIN rs |-> rs[i].val]) IN
          IF /\ CountOK(p, Len(Val(arr)))
             /\ (Get(p, "uniqueItems", FALSE) => Distinct(Val(arr)))
          THEN Ok(arr) ELSE Fail

(***************************************************************************)
(* Bind: the outcome the statement of C03 requires for one parameter.      *)
(*  - absent: required => fail, else default / unset                       *)
(*  - last occurrence wins for non-multi                                   *)
(*  - EmptyMeansAbsentForOptional: an empty value of an optional parameter *)
(*    "passes all other validations" (generated comment; documented)       *)
(***************************************************************************)
Bind(p, raw) ==
  IF ~raw.present \/ raw.vals = <<>>
    THEN IF p.required THEN Fail ELSE DefaultOrUnset(p)
  ELSE
    LET last == raw.vals[Len(raw.vals)] IN
    IF p.type # "array" THEN
      IF last = <<>> THEN
        IF p.required /\ ~Get(p, "allowEmpty", FALSE) THEN Fail
        ELSE IF p.required THEN Ok(ZeroOf(p.type))
        ELSE DefaultOrUnset(p)
      ELSE LET c == Convert(p.type, Cat(last)) IN
           IF ~c.ok THEN Fail
           ELSE IF ValidP(p, c.val) THEN c ELSE Fail
    ELSE
      LET cf     == Get(p, "cf", "csv")
          pieces == IF cf = "multi" THEN raw.vals ELSE SplitBy(cf, last) IN
      IF pieces = <<>> \/ (cf # "multi" /\ last = <<>>) THEN
        IF p.required /\ ~Get(p, "allowEmpty", FALSE) THEN Fail ELSE DefaultOrUnset(p)
      ELSE BindItems(p, pieces)

BindOK(p, raw) == Bind(p, raw).ok

(***************************************************************************)
(* Encode: what a client must put on the wire for value v (C04).           *)
(***************************************************************************)
LexOfNum(n) == CHOOSE x \in DOMAIN NumLex : NumLex[x] = n /\ (\A y \in DOMAIN NumLex : NumLex[y] = n => Len(x) <= Len(y))
HasLex(n)   == \E x \in DOMAIN NumLex : NumLex[x] = n
LexOf(v) == CASE Tag(v) = "num"  -> LexOfNum(Val(v))
              [] Tag(v) = "bool" -> IF Val(v) THEN "true" ELSE "false"
              [] OTHER        -> Val(v)

RECURSIVE JoinToks(_, _)
JoinToks(cf, pieces) ==
  IF pieces = <<>> THEN <<>>
  ELSE IF Len(pieces) = 1 THEN pieces[1]
  ELSE pieces[1] \o <<SepOf(cf)>> \o JoinToks(cf, Tail(pieces))

=============================================================================
