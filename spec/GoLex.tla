--------------------------- MODULE GoLex ---------------------------
(***************************************************************************)
(* Free text pasted into generated Go source (C09, C10).                   *)
(*                                                                         *)
(* A template site pastes a payload (a sequence of lexical tokens) through *)
(* an escaper into a lexical context of the Go scanner.  The machine below *)
(* feeds the escaped tokens to a model of the scanner one at a time; the   *)
(* site is safe when no token that originates from the payload is ever     *)
(* scanned outside the context the template opened, and the context is     *)
(* restored at the end.  TLC explores every payload up to MaxLen tokens    *)
(* for every (context, escaper) pair; the counterexamples of the unsafe    *)
(* pairs are the break-out payloads handed to the harness, which never     *)
(* reads which escaper a template applies - it observes the generated      *)
(* files.                                                                  *)
(***************************************************************************)
EXTENDS Integers, Sequences, FiniteSets, TLC, Json

CONSTANT MaxLen

Contexts == {"LineComment", "BlockComment", "RawString", "InterpString"}
Escapers == {"none", "comment", "blockcomment", "escapeBackticks", "quote"}
\* payload alphabet: newline, comment terminator, back-quote, double quote, backslash, plain text
\* CRLF: carriage return + newline (the Go scanner ends a line comment at the newline; the carriage
\* return before it is ordinary comment text)
Toks == {"NL", "CRLF", "STARSLASH", "BQ", "DQ", "BS", "TXT"}
LineTerminators == {"NL", "CRLF"}

\* escaped form of one payload token: a sequence of [t |-> token, own |-> TRUE iff it comes from the payload]
P(t) == [t |-> t, own |-> TRUE]
G(t) == [t |-> t, own |-> FALSE]       \* glue inserted by the escaper
Escape(e, t) ==
  CASE e = "comment" /\ t = "NL"             -> <<G("NL"), G("SLASHSLASH")>>                 \* padComment: newline + "// "
    [] e = "comment" /\ t = "CRLF"           -> <<P("TXT"), G("NL"), G("SLASHSLASH")>>       \* the CR stays, every newline is padded
    [] e = "quote" /\ t = "CRLF"             -> <<G("BS"), P("TXT"), G("BS"), P("TXT")>>     \* \r\n
    [] e = "blockcomment" /\ t = "STARSLASH" -> <<P("TXT")>>                                 \* "*/" rewritten, no longer a terminator
    [] e = "escapeBackticks" /\ t = "BQ"     -> <<G("BQ"), G("PLUS"), G("DQ"), P("BQ"), G("DQ"), G("PLUS"), G("BQ")>>
    [] e = "quote" /\ t = "DQ"               -> <<G("BS"), P("DQ")>>                         \* printf %q
    [] e = "quote" /\ t = "BS"               -> <<G("BS"), P("BS")>>
    [] e = "quote" /\ t = "NL"               -> <<G("BS"), P("TXT")>>                        \* \n
    [] OTHER                                 -> <<P(t)>>

\* the scanner: (context, pending backslash) x token -> context
Scan(ctx, bs, t) ==
  CASE ctx = "LineComment"  /\ t \in LineTerminators -> "Code"
    [] ctx = "BlockComment" /\ t = "STARSLASH" -> "Code"
    [] ctx = "RawString"    /\ t = "BQ"        -> "Code"
    [] ctx = "InterpString" /\ t = "DQ" /\ ~bs -> "Code"
    [] ctx = "InterpString" /\ t \in LineTerminators -> "Broken"          \* newline in interpreted string: syntax error
    [] ctx = "Code" /\ t = "BQ"                -> "RawString"
    [] ctx = "Code" /\ t = "DQ"                -> "InterpString"
    [] ctx = "Code" /\ t = "SLASHSLASH"        -> "LineComment"
    [] OTHER                                   -> ctx
NextBS(ctx, bs, t) == ctx = "InterpString" /\ t = "BS" /\ ~bs

VARIABLES start, esc, payload, queue, ctx, bs, leaked
vars == <<start, esc, payload, queue, ctx, bs, leaked>>

Init ==
  /\ start \in Contexts /\ esc \in Escapers
  /\ payload = <<>> /\ queue = <<>> /\ ctx = start /\ bs = FALSE /\ leaked = FALSE

\* the template pastes one more payload token (through the escaper)
Paste(t) ==
  /\ queue = <<>> /\ Len(payload) < MaxLen /\ ~leaked /\ ctx # "Broken"
  /\ payload' = Append(payload, t)
  /\ queue' = Escape(esc, t)
  /\ UNCHANGED <<start, esc, ctx, bs, leaked>>

\* the scanner consumes the next escaped token
Consume ==
  /\ queue # <<>>
  /\ LET x == Head(queue) IN
     /\ leaked' = (leaked \/ (x.own /\ ctx = "Code"))       \* payload text scanned as code
     /\ ctx' = Scan(ctx, bs, x.t)
     /\ bs' = NextBS(ctx, bs, x.t)
  /\ queue' = Tail(queue)
  /\ UNCHANGED <<start, esc, payload>>

Next == (\E t \in Toks : Paste(t)) \/ Consume
Spec == Init /\ [][Next]_vars

\* a site is broken when payload text is scanned as code / another literal, or the template's closing
\* delimiter no longer closes the context it opened
BrokenOut == queue = <<>> /\ (leaked \/ ctx \notin {start, "Broken"} \/ (ctx = "InterpString" /\ bs))   \* pending backslash eats the closing quote
\* for the pairs the templates rely on, no payload breaks out
SafePairs == {<<"LineComment", "comment">>, <<"BlockComment", "blockcomment">>, <<"RawString", "escapeBackticks">>,
              <<"InterpString", "quote">>}
SafeWhereEscaped == <<start, esc>> \in SafePairs => ~BrokenOut
\* generator of break-out payloads: printed once per (context, escaper, payload)
EmitBreakout == BrokenOut => PrintT(<<"CASE", ToJson([ctx |-> start, esc |-> esc, payload |-> payload])>>)
=============================================================================
