--------------------------- MODULE GenModels ---------------------------
(* GEN config for the generated-model family: one state per definition of ModelCases; Emit prints the
   definition's schema and its instances.  The definitions are reached in two steps (leaf, then
   wrapper) so that TLC's workers evaluate them in parallel: initial states are computed by one thread. *)
EXTENDS ModelCases, Json
VARIABLES n, stage
Special == "#special"
DefsOf(l) == IF l = Special THEN SpecialNames ELSE {DefName(l, w) : w \in {w \in Wrappers : WrapOK(l, w)}}
Init == n = "-" /\ stage = "root"
Next == \/ stage = "root" /\ stage' = "leaf" /\ n' \in Leaves \cup {Special}
        \/ stage = "leaf" /\ stage' = "def" /\ n' \in DefsOf(n)
SetAsSeq(S) == CHOOSE q \in [1..Cardinality(S) -> S] : \A i, j \in 1..Cardinality(S) : i # j => q[i] # q[j]
Emit == stage = "def" => PrintT(<<"CASE", ToJson([name |-> n, schema |-> DefSchema(n), instances |-> Instances(n)])>>)
\* design-level sanity on the oracle itself: ValidModel is weaker than Valid; AllowedVerdicts is never empty
\* (AllDefs is bound once per state: TLC does not cache a definition that goes through RECURSIVE operators)
Sane == stage = "def" => LET D == AllDefs  S == DefSchema(n) IN \A d \in Instances(n) :
          /\ Valid(D, S, d) => ValidModel(D, S, d)
          /\ AllowedVerdicts(D, S, d) # {}
=============================================================================
