--------------------------- MODULE GenModels ---------------------------
(* GEN config for the generated-model family: one state per definition of ModelCases; Emit prints the
   definition's schema and its instances. *)
EXTENDS ModelCases, Json
VARIABLE n
Init == n \in DefNames
Next == UNCHANGED n
SetAsSeq(S) == CHOOSE q \in [1..Cardinality(S) -> S] : \A i, j \in 1..Cardinality(S) : i # j => q[i] # q[j]
Emit == PrintT(<<"CASE", ToJson([name |-> n, schema |-> DefSchema(n), instances |-> Instances(n)])>>)
\* design-level sanity on the oracle itself: ValidModel is weaker than Valid; AllowedVerdicts is never empty
Sane == \A d \in Instances(n) :
          /\ Valid(AllDefs, DefSchema(n), d) => ValidModel(AllDefs, DefSchema(n), d)
          /\ AllowedVerdicts(AllDefs, DefSchema(n), d) # {}
=============================================================================
