--------------------------- MODULE TraceBuild ---------------------------
(* Trace validation for C01: Generate -> Build per case. *)
EXTENDS Integers, Sequences, TLC, Json
Trace == ndJsonDeserialize("trace.ndjson")
VARIABLES l, nrej, phase
tvars == <<l, nrej, phase>>
Ev == Trace[l]
IsEvent(e) == l <= Len(Trace) /\ Trace[l].ev = e /\ l' = l + 1
Reject(why) == PrintT(<<"REJECT", ToJson([line |-> l, why |-> why])>>) /\ nrej' = nrej + 1
Judge(why) == IF why = "ok" THEN nrej' = nrej ELSE Reject(why)
TInit == l = 1 /\ nrej = 0 /\ phase = "start"
TGenerate ==
  /\ IsEvent("Generate")
  /\ phase' = IF Ev.exit = 0 THEN "generated" ELSE "refused"
  /\ Judge(IF Ev.exit # 0 /\ ~Ev.errorPrinted THEN "generation fails without a diagnostic"
           ELSE IF Ev.exit # 0 /\ Ev.mustSucceed THEN "generation fails on a document of the supported fragment"
           ELSE "ok")
TBuild ==
  /\ IsEvent("Build") /\ phase = "generated"
  /\ phase' = "start"
  /\ Judge(IF Ev.ok THEN "ok" ELSE "the run exited successfully but the generated code does not build")
TSkip == IsEvent("NoBuild") /\ phase = "refused" /\ phase' = "start" /\ Judge("ok")
TSpec == TInit /\ [][TGenerate \/ TBuild \/ TSkip]_tvars
Consumed == TLCGet("stats").diameter - 1 = Len(Trace)
=============================================================================
