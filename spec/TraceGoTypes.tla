--------------------------- MODULE TraceGoTypes ---------------------------
(* Trace validation for C16: Scan -> (Encoded)* -> (Decoded)*; the scanned definitions of the Scan
   event are the schemas against which every value encoding/json produced is judged. *)
EXTENDS GoTypes, Json
Trace == ndJsonDeserialize("trace.ndjson")
VARIABLES l, nrej, sdefs
tvars == <<l, nrej, sdefs>>
Ev == Trace[l]
IsEvent(e) == l <= Len(Trace) /\ Trace[l].ev = e /\ l' = l + 1
Reject(why) == PrintT(<<"REJECT", ToJson([line |-> l, why |-> why])>>) /\ nrej' = nrej + 1
Judge(why) == IF why = "ok" THEN nrej' = nrej ELSE Reject(why)
TInit == l = 1 /\ nrej = 0 /\ sdefs = <<>>
TScan ==
  /\ IsEvent("Scan")
  /\ sdefs' = IF Ev.ok THEN Ev.defs ELSE <<>>
  /\ Judge(IF Ev.ok THEN "ok" ELSE IF Ev.panicked THEN "the scanner panicked" ELSE "the scanner fails on a well-typed package")
EncWhy ==
  IF Ev.model \notin DOMAIN sdefs THEN "the annotated model has no definition in the scanned spec"
  ELSE IF Ev.marshalErr THEN "ok"
  ELSE IF HasNumX(Ev.json) THEN "ok"
  ELSE IF ~Valid(sdefs, sdefs[Ev.model], Ev.json) THEN "the JSON produced by encoding/json is not valid for the scanned definition"
  \* the definition names the properties of the encoding: a key encoding/json writes (and that is not
  \* swagger:ignore'd) is a declared property, unless the definition is open by an additionalProperties schema
  ELSE IF /\ Tag(Ev.json) = "obj" /\ Has(sdefs[Ev.model], "properties") /\ ~Has(sdefs[Ev.model], "additionalProperties")
          /\ \E k \in DOMAIN Val(Ev.json) : k \notin DOMAIN AllProps(sdefs, sdefs[Ev.model]) /\ k \notin {Ev.ignored[i] : i \in DOMAIN Ev.ignored}
    THEN "encoding/json writes a property the scanned definition does not declare"
  ELSE "ok"
TEncoded == IsEvent("Encoded") /\ UNCHANGED sdefs /\ Judge(EncWhy)
TDecoded ==
  /\ IsEvent("Decoded") /\ UNCHANGED sdefs
  /\ Judge(IF Ev.decodes THEN "ok" ELSE "JSON the scanned definition accepts does not decode into the type")
TSpec == TInit /\ [][TScan \/ TEncoded \/ TDecoded]_tvars
Consumed == TLCGet("stats").diameter - 1 = Len(Trace)
=============================================================================
