--------------------------- MODULE ModelCases ---------------------------
(***************************************************************************)
(* The bounded universe of schema definitions (leaf x wrapper position)    *)
(* and of JSON instances (boundary values of every constraint, zero        *)
(* values, wrong types, null, absent) for the generated-model family       *)
(* C02 / C05 / C18.  A definition is named "<leaf>__<wrapper>"; DefSchema  *)
(* gives its schema, AllDefs the definitions object of one document, and   *)
(* Instances(name) the documents to try.  Used by the GEN config and by    *)
(* the trace spec, so no expectation is computed outside TLC.              *)
(***************************************************************************)
EXTENDS JsonSchema

LeafSchemas ==
  [ int_plain   |-> [type |-> "integer"],
    int_min     |-> [type |-> "integer", minimum |-> 4],
    int_max     |-> [type |-> "integer", maximum |-> 4],
    int_cross   |-> [type |-> "integer", minimum |-> -4, maximum |-> 4],
    int_min0    |-> [type |-> "integer", minimum |-> 0],
    int_xmin    |-> [type |-> "integer", minimum |-> 4, exclusiveMinimum |-> TRUE],
    int_xmax    |-> [type |-> "integer", maximum |-> 4, exclusiveMaximum |-> TRUE],
    int_mul     |-> [type |-> "integer", multipleOf |-> 4],
    int_enum    |-> [type |-> "integer", enum |-> <<2, 4>>],
    int_enum0   |-> [type |-> "integer", enum |-> <<0, 4>>],
    num_plain   |-> [type |-> "number"],
    num_range   |-> [type |-> "number", minimum |-> 1, maximum |-> 5],
    num_xrange  |-> [type |-> "number", minimum |-> 1, maximum |-> 5, exclusiveMinimum |-> TRUE, exclusiveMaximum |-> TRUE],
    num_mul     |-> [type |-> "number", multipleOf |-> 3],
    \* asymmetric exclusivity, per numeric format (each format takes its own branch of the templates)
    int_xlo     |-> [type |-> "integer", minimum |-> 2, maximum |-> 10, exclusiveMinimum |-> TRUE],
    int_xhi     |-> [type |-> "integer", minimum |-> 2, maximum |-> 10, exclusiveMaximum |-> TRUE],
    i32_xlo     |-> [type |-> "integer", format |-> "int32", minimum |-> 2, maximum |-> 10, exclusiveMinimum |-> TRUE],
    i32_xhi     |-> [type |-> "integer", format |-> "int32", minimum |-> 2, maximum |-> 10, exclusiveMaximum |-> TRUE],
    u32_xlo     |-> [type |-> "integer", format |-> "uint32", minimum |-> 2, maximum |-> 10, exclusiveMinimum |-> TRUE],
    u32_xhi     |-> [type |-> "integer", format |-> "uint32", minimum |-> 2, maximum |-> 10, exclusiveMaximum |-> TRUE],
    u64_xlo     |-> [type |-> "integer", format |-> "uint64", minimum |-> 2, maximum |-> 10, exclusiveMinimum |-> TRUE],
    u64_xhi     |-> [type |-> "integer", format |-> "uint64", minimum |-> 2, maximum |-> 10, exclusiveMaximum |-> TRUE],
    num_xlo     |-> [type |-> "number", minimum |-> 2, maximum |-> 10, exclusiveMinimum |-> TRUE],
    num_xhi     |-> [type |-> "number", minimum |-> 2, maximum |-> 10, exclusiveMaximum |-> TRUE],
    f32_xlo     |-> [type |-> "number", format |-> "float", minimum |-> 2, maximum |-> 10, exclusiveMinimum |-> TRUE],
    f32_xhi     |-> [type |-> "number", format |-> "float", minimum |-> 2, maximum |-> 10, exclusiveMaximum |-> TRUE],
    f32_mul     |-> [type |-> "number", format |-> "float", multipleOf |-> 3],
    i32_mul     |-> [type |-> "integer", format |-> "int32", multipleOf |-> 4],
    i32_enum    |-> [type |-> "integer", format |-> "int32", enum |-> <<2, 4>>],
    str_plain   |-> [type |-> "string"],
    str_minlen  |-> [type |-> "string", minLength |-> 2],
    str_maxlen  |-> [type |-> "string", maxLength |-> 2],
    str_pat     |-> [type |-> "string", pattern |-> "P_a_prefix"],
    str_enum    |-> [type |-> "string", enum |-> <<"a", "ab">>],
    str_date    |-> [type |-> "string", format |-> "date"],
    \* formats whose Go type is not a string underneath: named definitions of them need their own (un)marshallers
    str_dt      |-> [type |-> "string", format |-> "date-time"],
    str_dur     |-> [type |-> "string", format |-> "duration"],
    str_byte    |-> [type |-> "string", format |-> "byte"],
    \* an enum on an array-typed schema (values are arrays)
    arr_enum    |-> [type |-> "array", items |-> [type |-> "integer"], enumT |-> <<Arr(<<Num(2), Num(4)>>), Arr(<<Num(6)>>)>>],
    bool_plain  |-> [type |-> "boolean"],
    arr_int     |-> [type |-> "array", items |-> [type |-> "integer", minimum |-> 4]],
    arr_count   |-> [type |-> "array", items |-> [type |-> "integer"], minItems |-> 1, maxItems |-> 2],
    arr_unique  |-> [type |-> "array", items |-> [type |-> "string"], uniqueItems |-> TRUE],
    arr_nested  |-> [type |-> "array", items |-> [type |-> "array", items |-> [type |-> "integer", maximum |-> 4], maxItems |-> 1]],
    obj_req     |-> [type |-> "object", required |-> <<"a">>, properties |-> [a |-> [type |-> "integer", minimum |-> 4], b |-> [type |-> "string", maxLength |-> 2]]],
    obj_map     |-> [type |-> "object", additionalProperties |-> [type |-> "integer", minimum |-> 4]],
    obj_mapprops|-> [type |-> "object", properties |-> [a |-> [type |-> "string"]], additionalProperties |-> [type |-> "integer", maximum |-> 4]],
    obj_count   |-> [type |-> "object", additionalProperties |-> [type |-> "string"], minProperties |-> 1, maxProperties |-> 2],
    \* property counts on an object with declared properties and no additionalProperties keyword, one bound only
    obj_minprops|-> [type |-> "object", properties |-> [a |-> [type |-> "string"], b |-> [type |-> "integer"]], minProperties |-> 1],
    obj_maxprops|-> [type |-> "object", properties |-> [a |-> [type |-> "string"], b |-> [type |-> "integer"]], maxProperties |-> 1],
    \* declared properties next to additionalProperties whose values are arrays / maps
    obj_maparr  |-> [type |-> "object", properties |-> [a |-> [type |-> "string"]], additionalProperties |-> [type |-> "array", items |-> [type |-> "integer"]]],
    obj_mapmap  |-> [type |-> "object", properties |-> [a |-> [type |-> "string"]], additionalProperties |-> [type |-> "object", additionalProperties |-> [type |-> "string"]]],
    obj_allof   |-> [allOf |-> << [type |-> "object", required |-> <<"a">>, properties |-> [a |-> [type |-> "integer", minimum |-> 4]]],
                                  [type |-> "object", properties |-> [b |-> [type |-> "string", minLength |-> 2]]] >>] ]

Leaves == DOMAIN LeafSchemas
ScalarLeaves == {x \in Leaves : Has(LeafSchemas[x], "type") /\ LeafSchemas[x].type \in {"integer", "number", "string", "boolean"}}

Wrappers == {"top", "opt", "req", "item", "item2", "mapval", "ref_opt", "ref_req", "nullable", "req_ro", "req_default", "allof_prop",
             "alias", "refalias_opt", "refalias_item", "propmapref", "propmapmapref"}

\* wrappers that only make sense for some leaves
WrapOK(leaf, w) ==
  CASE w = "req_default" -> leaf \in ScalarLeaves
    [] w = "nullable"    -> leaf \in ScalarLeaves
    \* a definition that is a bare $ref to another definition, and properties / items reaching it
    \* a property that is an inline map (of maps) whose values refer to the NAMED map definition of the leaf
    [] w \in {"propmapref", "propmapmapref"} -> leaf \in {"int_min", "str_maxlen", "obj_req", "arr_int", "num_xhi", "int_enum"}
    [] w \in {"alias", "refalias_opt", "refalias_item"} -> leaf \in {"obj_req", "obj_map", "int_min", "str_maxlen", "arr_int", "obj_allof", "num_xhi"}
    [] OTHER -> TRUE

DefName(leaf, w) == leaf \o "__" \o w
LeafDefName(leaf) == leaf \o "__top"

\* a default must itself be valid for the leaf (else the document is not a valid spec) and non-zero
DefaultCands == {Num(4), Num(6), Num(3), Num(2), Num(8), Str("ab"), Str("a"), Str("2020-01-02"), Str("3s"), Str("YWI="), Str("2020-01-02T03:04:05Z"), Bool(TRUE)}
DefaultFor(leaf) == CHOOSE v \in DefaultCands : Valid(<<>>, LeafSchemas[leaf], v)

Wrap(leaf, w) ==
  LET s == LeafSchemas[leaf] IN
  CASE w = "top"     -> s
    [] w = "opt"     -> [type |-> "object", properties |-> [p |-> s]]
    [] w = "req"     -> [type |-> "object", required |-> <<"p">>, properties |-> [p |-> s]]
    [] w = "item"    -> [type |-> "array", items |-> s]
    [] w = "item2"   -> [type |-> "array", items |-> [type |-> "array", items |-> s]]
    [] w = "mapval"  -> [type |-> "object", additionalProperties |-> s]
    [] w = "alias"   -> [ref |-> LeafDefName(leaf)]
    [] w = "refalias_opt"  -> [type |-> "object", properties |-> [p |-> [ref |-> DefName(leaf, "alias")]]]
    [] w = "refalias_item" -> [type |-> "array", items |-> [ref |-> DefName(leaf, "alias")]]
    [] w = "propmapref"    -> [type |-> "object", properties |-> [p |-> [type |-> "object", additionalProperties |-> [ref |-> DefName(leaf, "mapval")]]]]
    [] w = "propmapmapref" -> [type |-> "object", properties |-> [p |-> [type |-> "object", additionalProperties |->
                                  [type |-> "object", additionalProperties |-> [ref |-> DefName(leaf, "mapval")]]]]]
    [] w = "ref_opt" -> [type |-> "object", properties |-> [p |-> [ref |-> LeafDefName(leaf)]]]
    [] w = "ref_req" -> [type |-> "object", required |-> <<"p">>, properties |-> [p |-> [ref |-> LeafDefName(leaf)]]]
    [] w = "nullable"-> [type |-> "object", properties |-> [p |-> Put(s, "x-nullable", TRUE)]]
    [] w = "req_ro"  -> [type |-> "object", required |-> <<"p">>, properties |-> [p |-> Put(s, "readOnly", TRUE)]]
    [] w = "req_default" -> [type |-> "object", required |-> <<"p">>, properties |-> [p |-> Put(s, "default", DefaultFor(leaf))]]
    [] w = "allof_prop"  -> [allOf |-> << [type |-> "object", properties |-> [q |-> [type |-> "string"]]],
                                         [type |-> "object", required |-> <<"p">>, properties |-> [p |-> s]] >>]

(***************************************************************************)
(* Special definitions (C05 names them): property names that are not Go    *)
(* identifiers, additionalProperties: true next to declared properties,    *)
(* tuples, an alias of a formatted type, a discriminated base type with    *)
(* two subtypes reached through a property and through an array.           *)
(***************************************************************************)
AnySchema == [x \in {} |-> 0]         \* the empty schema: additionalProperties: true
WeirdProps == ("my-prop" :> [type |-> "string"]) @@ ("my prop" :> [type |-> "integer"]) @@ ("1st" :> [type |-> "boolean"])
              @@ ("type" :> [type |-> "string"]) @@ ("a.b" :> [type |-> "integer"]) @@ ("Content-Type" :> [type |-> "string"])
SpecialSchemas ==
  [ sp_weirdnames |-> [type |-> "object", required |-> <<"my-prop">>, properties |-> WeirdProps],
    sp_addl_true  |-> [type |-> "object", properties |-> [a |-> [type |-> "string"]], additionalProperties |-> AnySchema],
    \* property NAMES that are also options of a json struct tag (`json:"string"`): they are names
    sp_optwords   |-> [type |-> "object", required |-> <<"string">>,
                       properties |-> ("string" :> [type |-> "integer", format |-> "int32", minimum |-> 0]) @@ ("omitempty" :> [type |-> "boolean"])
                                      @@ ("column" :> [type |-> "string"])],
    sp_tuple      |-> [type |-> "array", itemsTuple |-> <<[type |-> "string"], [type |-> "integer", minimum |-> 4]>>],
    sp_tuple_prop |-> [type |-> "object", properties |-> [t |-> [type |-> "array", itemsTuple |-> <<[type |-> "integer"], [type |-> "string", maxLength |-> 2]>>]]],
    sp_alias_uuid |-> [type |-> "string", format |-> "uuid"],
    sp_alias_uuid_user |-> [type |-> "object", required |-> <<"id">>, properties |-> [id |-> [ref |-> "sp_alias_uuid"], ids |-> [type |-> "array", items |-> [ref |-> "sp_alias_uuid"]]]],
    sp_pet        |-> [type |-> "object", discriminator |-> "kind", required |-> <<"kind", "name">>,
                       properties |-> [kind |-> [type |-> "string"], name |-> [type |-> "string"]]],
    \* models that go through the serializer of polymorphic holders / subtypes, with REQUIRED properties of
    \* non-pointer Go types (map, x-nullable:false scalars): their zero values must survive encoding
    sp_shelter    |-> [type |-> "object", required |-> <<"labels", "capacity", "open", "motto">>,
                       properties |-> [resident |-> [ref |-> "sp_pet"], labels |-> [type |-> "object", additionalProperties |-> [type |-> "string"]],
                                       capacity |-> ([type |-> "integer"] @@ ("x-nullable" :> FALSE)), open |-> ([type |-> "boolean"] @@ ("x-nullable" :> FALSE)),
                                       motto |-> ([type |-> "string"] @@ ("x-nullable" :> FALSE))]],
    sp_sibling    |-> [allOf |-> <<[ref |-> "sp_pet"]>>, required |-> <<"traits", "lives">>,
                       properties |-> [traits |-> [type |-> "object", additionalProperties |-> [type |-> "string"]], lives |-> ([type |-> "integer"] @@ ("x-nullable" :> FALSE))]],
    sp_feline     |-> ("allOf" :> <<[ref |-> "sp_pet"], [type |-> "object", properties |-> [lives |-> [type |-> "integer"]]]>>) @@ ("x-go-name" :> "HouseFeline"),
    sp_cat        |-> [allOf |-> <<[ref |-> "sp_pet"], [type |-> "object", properties |-> [claws |-> [type |-> "integer", minimum |-> 2]]]>>],
    sp_dog        |-> [allOf |-> <<[ref |-> "sp_pet"], [type |-> "object", required |-> <<"bark">>, properties |-> [bark |-> [type |-> "string"]]]>>],
    sp_zoo        |-> [type |-> "object", properties |-> [star |-> [ref |-> "sp_pet"], all |-> [type |-> "array", items |-> [ref |-> "sp_pet"]]]],
    \* a polymorphic holder that is also OPEN: additional properties (a schema) next to the property of the base type
    sp_kennel     |-> [type |-> "object", properties |-> [title |-> [type |-> "string"], star |-> [ref |-> "sp_pet"]], additionalProperties |-> [type |-> "integer"]],
    \* a hierarchy whose subtype names its discriminator value with x-class
    sp_shape      |-> [type |-> "object", discriminator |-> "stype", required |-> <<"stype">>, properties |-> [stype |-> [type |-> "string"], label |-> [type |-> "string"]]],
    sp_circle     |-> ("allOf" :> <<[ref |-> "sp_shape"], [type |-> "object", properties |-> [radius |-> [type |-> "integer"]]]>>) @@ ("x-class" :> "org.example.Circle"),
    sp_drawing    |-> [type |-> "object", properties |-> [main |-> [ref |-> "sp_shape"], shapes |-> [type |-> "array", items |-> [ref |-> "sp_shape"]]]] ]
SpecialNames == DOMAIN SpecialSchemas

Cat(n, c)  == Obj([kind |-> Str("sp_cat"), name |-> Str(n), claws |-> Num(c)])
Dog(n, b)  == Obj([kind |-> Str("sp_dog"), name |-> Str(n), bark |-> Str(b)])
UUID == Str("a0eebc99-9c0b-4ef8-bb6d-6bb9bd380a11")
SpecialInstances(name) ==
  CASE name = "sp_weirdnames" ->
         {Obj(("my-prop" :> Str("a"))), Obj(("my-prop" :> Str("a")) @@ ("my prop" :> Num(4)) @@ ("1st" :> Bool(TRUE)) @@ ("type" :> Str("ab")) @@ ("a.b" :> Num(2)) @@ ("Content-Type" :> Str("b"))),
          Obj(("my prop" :> Num(4))), Obj(("my-prop" :> Num(2))), Obj(("my-prop" :> Str("")) @@ ("1st" :> Bool(FALSE)))}
    [] name = "sp_optwords" ->
         {Obj(("string" :> Num(8)) @@ ("omitempty" :> Bool(TRUE)) @@ ("column" :> Str("a"))), Obj(("string" :> Num(0))), Obj(("string" :> Str("a"))),
          Obj(("omitempty" :> Bool(FALSE))), Obj(("string" :> Num(-2)))}
    [] name = "sp_addl_true" ->
         {Obj(<<>>), Obj([a |-> Str("a")]), Obj([a |-> Str("a"), x |-> Num(4)]), Obj([x |-> Str("b"), y |-> Arr(<<Num(2)>>), z |-> Obj([k |-> Bool(TRUE)])]), Obj([a |-> Num(2)])}
    [] name = "sp_tuple" ->
         \* full tuples only: go-swagger documents tuples as partial (all declared positions are expected)
         {Arr(<<Str("a"), Num(4)>>), Arr(<<Str("a"), Num(2)>>), Arr(<<Num(4), Str("a")>>), Arr(<<Str("b"), Num(12)>>)}
    [] name = "sp_tuple_prop" ->
         {Obj(<<>>), Obj([t |-> Arr(<<Num(4), Str("ab")>>)]), Obj([t |-> Arr(<<Num(4), Str("abc")>>)]), Obj([t |-> Arr(<<Str("a"), Str("a")>>)])}
    [] name = "sp_alias_uuid" -> {UUID, Str("a"), Num(2)}
    [] name = "sp_alias_uuid_user" -> {Obj([id |-> UUID]), Obj([id |-> UUID, ids |-> Arr(<<UUID, UUID>>)]), Obj([id |-> Str("a")]), Obj(<<>>), Obj([id |-> UUID, ids |-> Arr(<<Str("b")>>)])}
    [] name = "sp_pet" -> {Cat("a", 4), Dog("b", "ab"), Obj([kind |-> Str("sp_cat")]), Obj([name |-> Str("a")])}
    [] name = "sp_cat" -> {Cat("a", 4), Cat("a", 0), Obj([kind |-> Str("sp_cat"), name |-> Str("a")]), Obj([kind |-> Str("sp_cat"), name |-> Str("a"), claws |-> Str("x")])}
    [] name = "sp_shelter" -> {Obj([labels |-> Obj([k |-> Str("a")]), capacity |-> Num(4), open |-> Bool(TRUE), motto |-> Str("ab"), resident |-> Cat("a", 4)]),
                               Obj([labels |-> Obj(<<>>), capacity |-> Num(0), open |-> Bool(FALSE), motto |-> Str(""), resident |-> Dog("b", "ab")]),
                               Obj([labels |-> Obj(<<>>), capacity |-> Num(0), open |-> Bool(FALSE), motto |-> Str("")]),
                               Obj([capacity |-> Num(2)])}
    [] name = "sp_sibling" -> {Obj([kind |-> Str("sp_sibling"), name |-> Str("a"), traits |-> Obj([k |-> Str("b")]), lives |-> Num(18)]),
                               Obj([kind |-> Str("sp_sibling"), name |-> Str(""), traits |-> Obj(<<>>), lives |-> Num(0)]),
                               Obj([kind |-> Str("sp_sibling"), name |-> Str("a")])}
    [] name = "sp_feline" -> {Obj([kind |-> Str("sp_feline"), name |-> Str("a"), lives |-> Num(18)]), Obj([kind |-> Str("sp_feline"), name |-> Str("a")]),
                              Obj([kind |-> Str("sp_feline")])}
    [] name = "sp_kennel" -> {Obj([title |-> Str("a"), star |-> Cat("a", 4), extra |-> Num(8), more |-> Num(0)]), Obj([star |-> Dog("b", "ab"), extra |-> Num(2)]),
                              Obj([title |-> Str(""), extra |-> Num(4)]), Obj(<<>>), Obj([extra |-> Str("x")])}
    [] name = "sp_dog" -> {Dog("b", "ab"), Obj([kind |-> Str("sp_dog"), name |-> Str("b")])}
    [] name = "sp_shape" -> {Obj([stype |-> Str("org.example.Circle"), label |-> Str("a"), radius |-> Num(4)]), Obj([label |-> Str("a")])}
    [] name = "sp_circle" -> {Obj([stype |-> Str("org.example.Circle"), label |-> Str("a"), radius |-> Num(4)]), Obj([stype |-> Str("org.example.Circle")])}
    [] name = "sp_drawing" -> {Obj(<<>>), Obj([main |-> Obj([stype |-> Str("org.example.Circle"), label |-> Str("a"), radius |-> Num(4)])]),
                                Obj([shapes |-> Arr(<<Obj([stype |-> Str("org.example.Circle"), radius |-> Num(6)])>>)])}
    [] name = "sp_zoo" -> {Obj(<<>>), Obj([star |-> Cat("a", 4)]), Obj([star |-> Dog("b", "ab"), all |-> Arr(<<Cat("a", 4), Dog("c", "a")>>)]),
                            Obj([star |-> Obj([kind |-> Str("sp_feline"), name |-> Str("a"), lives |-> Num(18)])]),
                            Obj([all |-> Arr(<<>>)]), Obj([all |-> Arr(<<Cat("a", 6)>>)])}

DefKeys == {<<l, w>> \in Leaves \X Wrappers : WrapOK(l, w)}
DefNames == {DefName(k[1], k[2]) : k \in DefKeys} \cup SpecialNames
KeyOf(name) == CHOOSE k \in DefKeys : DefName(k[1], k[2]) = name
DefSchema(name) == IF name \in SpecialNames THEN SpecialSchemas[name] ELSE Wrap(KeyOf(name)[1], KeyOf(name)[2])
\* all definitions as one function name -> schema, built leaf by leaf (a direct [n \in DefNames |-> DefSchema(n)]
\* costs |DefNames|^2 string comparisons, and TLC re-evaluates it at every use)
OKW(l) == {w \in Wrappers : WrapOK(l, w)}
LeafDefs(l) == [nm \in {DefName(l, w) : w \in OKW(l)} |-> Wrap(l, CHOOSE w \in OKW(l) : DefName(l, w) = nm)]
RECURSIVE MergeLeaves(_)
MergeLeaves(L) == IF L = {} THEN SpecialSchemas ELSE LET l == CHOOSE x \in L : TRUE IN LeafDefs(l) @@ MergeLeaves(L \ {l})
AllDefs == MergeLeaves(Leaves)

(***************************************************************************)
(* Instances                                                               *)
(***************************************************************************)
NumVals == {-6, -4, -2, -1, 0, 1, 2, 3, 4, 5, 6, 8, 9, 10, 11, 12}
StrVals == {"", "a", "ab", "abc", "b", "2020-01-02", "3s", "YWI=", "2020-01-02T03:04:05Z"}
Scalars == {Num(n) : n \in NumVals} \cup {Str(x) : x \in StrVals} \cup {Bool(TRUE), Bool(FALSE)}

SeqsUpTo(S, n) == UNION {[1..k -> S] : k \in 0..n}

\* candidate values for a leaf: the boundaries of its own constraints + a wrong-typed value
LeafVals(leaf) ==
  LET s == LeafSchemas[leaf] IN
  IF ~Has(s, "type") THEN   \* obj_allof
    {Obj(<<>>), Obj([a |-> Num(4)]), Obj([a |-> Num(2)]), Obj([a |-> Num(4), b |-> Str("ab")]), Obj([a |-> Num(4), b |-> Str("a")]),
     Obj([b |-> Str("ab")]), Obj([a |-> Num(0), b |-> Str("")]), Obj([a |-> Num(4), z |-> Num(1)])}
  ELSE CASE s.type \in {"integer", "number"} -> {Num(n) : n \in NumVals} \cup {Str("a")}
    [] s.type = "string"  -> {Str(x) : x \in StrVals} \cup {Num(2)}
    [] s.type = "boolean" -> {Bool(TRUE), Bool(FALSE), Str("a")}
    [] leaf = "arr_int"    -> {Arr(q) : q \in SeqsUpTo({Num(2), Num(4), Num(0)}, 2)} \cup {Arr(<<Str("a")>>), Str("a")}
    [] leaf = "arr_enum"   -> {Arr(<<>>), Arr(<<Num(2), Num(4)>>), Arr(<<Num(4), Num(2)>>), Arr(<<Num(6)>>), Arr(<<Num(2)>>), Arr(<<Num(8)>>), Arr(<<Num(6), Num(6)>>)}
    [] leaf = "arr_count"  -> {Arr(q) : q \in SeqsUpTo({Num(2)}, 3)} \cup {Arr(<<Num(1)>>)}
    [] leaf = "arr_unique" -> {Arr(q) : q \in SeqsUpTo({Str("a"), Str("b")}, 2)} \cup {Arr(<<Str("a"), Str("b"), Str("a")>>)}
    [] leaf = "arr_nested" -> {Arr(<<>>), Arr(<<Arr(<<>>)>>), Arr(<<Arr(<<Num(4)>>)>>), Arr(<<Arr(<<Num(6)>>)>>),
                               Arr(<<Arr(<<Num(2), Num(2)>>)>>), Arr(<<Arr(<<Num(2)>>), Arr(<<Num(6)>>)>>)}
    [] leaf = "obj_req"    -> {Obj(<<>>), Obj([a |-> Num(4)]), Obj([a |-> Num(2)]), Obj([a |-> Num(0)]), Obj([b |-> Str("ab")]),
                               Obj([a |-> Num(4), b |-> Str("abc")]), Obj([a |-> Num(4), b |-> Str("")]), Obj([a |-> Str("a")]),
                               Obj([a |-> Num(4), z |-> Num(1)])}
    [] leaf = "obj_map"    -> {Obj(<<>>), Obj([k |-> Num(4)]), Obj([k |-> Num(2)]), Obj([k |-> Num(0)]), Obj([k |-> Num(4), j |-> Num(2)]), Obj([k |-> Str("a")])}
    [] leaf = "obj_mapprops" -> {Obj(<<>>), Obj([a |-> Str("a")]), Obj([a |-> Str("a"), k |-> Num(4)]), Obj([a |-> Str("a"), k |-> Num(6)]),
                                 Obj([k |-> Num(6)]), Obj([a |-> Num(2)]), Obj([a |-> Str(""), k |-> Num(0)])}
    [] leaf = "obj_minprops" -> {Obj(<<>>), Obj([a |-> Str("a")]), Obj([a |-> Str("a"), b |-> Num(2)]), Obj([z |-> Num(2)])}
    [] leaf = "obj_maxprops" -> {Obj(<<>>), Obj([a |-> Str("a")]), Obj([a |-> Str("a"), b |-> Num(2)]), Obj([a |-> Str("a"), z |-> Num(2)]), Obj([b |-> Num(4)])}
    [] leaf = "obj_maparr" -> {Obj(<<>>), Obj([a |-> Str("a")]), Obj([k |-> Arr(<<Num(2), Num(4)>>)]),
                               Obj([a |-> Str("b"), k |-> Arr(<<Num(2), Num(4), Num(6)>>), j |-> Arr(<<Num(8), Num(10)>>), i |-> Arr(<<Num(12)>>)]),
                               Obj([k |-> Arr(<<Num(2)>>), j |-> Arr(<<>>)]), Obj([k |-> Arr(<<Str("a")>>)])}
    [] leaf = "obj_mapmap" -> {Obj(<<>>), Obj([k |-> Obj([x |-> Str("a")])]), Obj([a |-> Str("a"), k |-> Obj([x |-> Str("a")]), j |-> Obj([y |-> Str("b")])]),
                               Obj([k |-> Obj(<<>>), j |-> Obj([y |-> Str("b"), z |-> Str("ab")])]), Obj([k |-> Obj([x |-> Num(2)])])}
    [] leaf = "obj_count"  -> {Obj(<<>>), Obj([k |-> Str("a")]), Obj([k |-> Str("a"), j |-> Str("b")]), Obj([k |-> Str("a"), j |-> Str("b"), i |-> Str("")])}

\* a value of the leaf that is valid (used as filler)
Instances(name) ==
  IF name \in SpecialNames THEN SpecialInstances(name) ELSE
  LET k == KeyOf(name)  leaf == k[1]  w == k[2]  vs == LeafVals(leaf) IN
  CASE w \in {"top", "alias"} -> vs
    [] w = "refalias_item" -> {Arr(<<v>>) : v \in vs} \cup {Arr(<<>>)}
    [] w = "propmapref"    -> {Obj([p |-> Obj([k |-> Obj([j |-> v])])]) : v \in vs} \cup {Obj(<<>>), Obj([p |-> Obj(<<>>)]), Obj([p |-> Obj([k |-> Obj(<<>>)])])}
    [] w = "propmapmapref" -> {Obj([p |-> Obj([k |-> Obj([j |-> Obj([i |-> v])])])]) : v \in vs} \cup {Obj(<<>>), Obj([p |-> Obj([k |-> Obj(<<>>)])])}
    [] w \in {"opt", "req", "ref_opt", "ref_req", "nullable", "req_ro", "req_default", "refalias_opt"} ->
         {Obj([p |-> v]) : v \in vs} \cup {Obj(<<>>), Obj([p |-> Null]), Obj([z |-> Num(2)])}
    [] w = "allof_prop" ->
         {Obj([p |-> v]) : v \in vs} \cup {Obj([p |-> v, q |-> Str("a")]) : v \in vs} \cup {Obj(<<>>), Obj([q |-> Str("a")]), Obj([p |-> Null])}
    [] w = "item"   -> {Arr(<<v>>) : v \in vs} \cup {Arr(<<>>)} \cup {Arr(<<v, v>>) : v \in vs}
    [] w = "item2"  -> {Arr(<<Arr(<<v>>)>>) : v \in vs} \cup {Arr(<<>>), Arr(<<Arr(<<>>)>>)}
    [] w = "mapval" -> {Obj([k1 |-> v]) : v \in vs} \cup {Obj(<<>>)}

=============================================================================
