--------------------------- MODULE Regen ---------------------------
(***************************************************************************)
(* The generation target directory as a state machine (C11).               *)
(*                                                                         *)
(*  state:  spec  - the current version of the input document              *)
(*          files - path -> content ("none" when the path does not exist)  *)
(*  steps:  Gen(cmd, opt)   a `swagger generate <cmd>` run                 *)
(*          UserAdd(u)      the user adds a file of their own              *)
(*          UserEditConf    the user edits the generated-once configure    *)
(*                          file                                           *)
(*          UserEditMain    the user edits a regenerated file (main.go)    *)
(*  option sets of `generate server` include --implementation-package,    *)
(*  which replaces the generated-once configure file by an auto_configure  *)
(*  file that is regenerated on every run                                  *)
(*          ToggleOp / ToggleDef  the spec gains / loses an operation or   *)
(*                          a definition                                   *)
(*                                                                         *)
(* GenEffect is the single definition of what a run may do to the          *)
(* directory; the MC config uses it with the designed Responsible sets,    *)
(* the trace spec (TraceRegen) uses it with the file set and contents      *)
(* observed from a fresh generation into an empty directory.               *)
(***************************************************************************)
EXTENDS Integers, Sequences, FiniteSets, TLC, Json

CONSTANTS Ops, Defs, UserFiles, MaxHist

Cmds    == {"server", "client", "model", "operation", "support"}
\* custom_layout: the layout file documented in docs/reference/templates/template_layout.md (-C), in which
\* the generated-once file is declared by `skip_exists: true`, with the documented name -A TodoList
\* exclude_main_pkg: --exclude-main together with --main-package: the user keeps a hand-written main in
\* cmd/<main-package> (user file u4 lives exactly there)
OptSets == {"default", "regen_configure", "skip_models", "skip_operations", "skip_support", "exclude_main", "exclude_main_pkg", "impl_package", "custom_layout", "stratoscale"}
\* stratoscale: --template stratoscale; its configure file is generated code (regenerated on every run, like
\* --regenerate-configureapi) and it generates no main
RegenOpts == {"regen_configure", "stratoscale"}
OptsOf(cmd) == IF cmd = "server" THEN OptSets
               ELSE {"default"}      \* `generate support` has no --regenerate-configureapi: it never rewrites an existing configure file

P(k, n) == [k |-> k, n |-> n]
Paths == {P("model", d) : d \in Defs} \cup {P("sop", o) : o \in Ops} \cup {P("cop", o) : o \in Ops}
         \cup {P("support", "-"), P("main", "-"), P("configure", "-"), P("autoconf", "-"), P("facade", "-")}
         \cup {P("user", u) : u \in UserFiles}

VARIABLES spec, files, last, hist
vars == <<spec, files, last, hist>>

None == [src |-> "none"]
Present(c) == c.src # "none"

\* ---- the effect of one generator run ----------------------------------------------------
\* f: files before; R: paths the run is responsible for; freshOf(p): content a fresh generation
\* gives p; isConf(p): p is the generated-once configure file; regen: regeneration requested
GenEffect(f, R, freshOf(_), isConf(_), present(_), regen) ==
  [p \in (DOMAIN f) \cup R |->
     IF p \in R
       THEN IF isConf(p) /\ p \in DOMAIN f /\ present(f[p]) /\ ~regen THEN f[p] ELSE freshOf(p)
       ELSE f[p]]

\* ---- the designed responsibility of each command (generator/shared.go, commands/generate) ----
Models(sp)  == {P("model", d) : d \in sp.defs}
SOps(sp)    == {P("sop", o) : o \in sp.ops}
COps(sp)    == {P("cop", o) : o \in sp.ops}
Responsible(cmd, opt, sp) ==
  CASE cmd = "server" ->
         (IF opt = "skip_models" THEN {} ELSE Models(sp))
         \cup (IF opt = "skip_operations" THEN {} ELSE SOps(sp))
         \cup (IF opt = "skip_support" THEN {}
               ELSE {P("support", "-"), IF opt = "impl_package" THEN P("autoconf", "-") ELSE P("configure", "-")}
                    \cup (IF opt \in {"exclude_main", "exclude_main_pkg", "stratoscale"} THEN {} ELSE {P("main", "-")}))
    [] cmd = "client"    -> Models(sp) \cup COps(sp) \cup {P("facade", "-")}
    [] cmd = "model"     -> Models(sp)
    [] cmd = "operation" -> SOps(sp)
    [] cmd = "support"   -> {P("support", "-"), P("configure", "-"), P("main", "-")}

Fresh(cmd, opt, sp, p) == [src |-> "gen", sp |-> sp, p |-> p]
IsConf(p) == p.k = "configure"

Init ==
  /\ spec = [ops |-> Ops, defs |-> Defs]
  /\ files = [p \in Paths |-> None]
  /\ last = [a |-> "init"]
  /\ hist = <<>>

Room == Len(hist) < MaxHist

Gen(cmd, opt) ==
  /\ Room
  /\ LET R == Responsible(cmd, opt, spec)
         F(p) == Fresh(cmd, opt, spec, p) IN
     files' = GenEffect(files, R, F, IsConf, Present, opt \in RegenOpts)
  /\ last' = [a |-> "gen", cmd |-> cmd, opt |-> opt]
  /\ hist' = Append(hist, [a |-> "gen", cmd |-> cmd, opt |-> opt])
  /\ UNCHANGED spec

UserAdd(u) ==
  /\ Room /\ files[P("user", u)] = None
  /\ files' = [files EXCEPT ![P("user", u)] = [src |-> "user", n |-> Len(hist)]]
  /\ last' = [a |-> "user_add", u |-> u]
  /\ hist' = Append(hist, [a |-> "user_add", u |-> u])
  /\ UNCHANGED spec

UserEdit(k) ==      \* k = "configure" (generated once) or "main" (regenerated)
  /\ Room /\ Present(files[P(k, "-")])
  /\ files' = [files EXCEPT ![P(k, "-")] = [src |-> "user", n |-> Len(hist)]]
  /\ last' = [a |-> "user_edit", k |-> k]
  /\ hist' = Append(hist, [a |-> "user_edit", k |-> k])
  /\ UNCHANGED spec

ToggleOp(o) ==
  /\ Room
  /\ spec' = [spec EXCEPT !.ops = IF o \in @ THEN @ \ {o} ELSE @ \cup {o}]
  /\ last' = [a |-> "toggle_op", n |-> o]
  /\ hist' = Append(hist, [a |-> "toggle_op", n |-> o])
  /\ UNCHANGED files

ToggleDef(d) ==
  /\ Room
  /\ spec' = [spec EXCEPT !.defs = IF d \in @ THEN @ \ {d} ELSE @ \cup {d}]
  /\ last' = [a |-> "toggle_def", n |-> d]
  /\ hist' = Append(hist, [a |-> "toggle_def", n |-> d])
  /\ UNCHANGED files

Next ==
  \/ \E cmd \in Cmds : \E opt \in OptsOf(cmd) : Gen(cmd, opt)
  \/ \E u \in UserFiles : UserAdd(u)
  \/ \E k \in {"configure", "main"} : UserEdit(k)
  \/ \E o \in Ops : ToggleOp(o)
  \/ \E d \in Defs : ToggleDef(d)

Spec == Init /\ [][Next]_vars

\* behaviours worth replaying start by generating something
GenNext == IF hist = <<>> THEN \E cmd \in {"server", "client", "support"} : Gen(cmd, "default") ELSE Next
GenSpec == Init /\ [][GenNext]_vars

\* focused behaviours: run, one perturbation (user action or spec change), run again - exhaustively.
\* FocusAll = FALSE: the second run repeats the first command (or is a plain `generate server`).
CONSTANT FocusAll
Perturb ==
  \/ \E u \in UserFiles : UserAdd(u)
  \/ \E k \in {"configure", "main"} : UserEdit(k)
  \/ \E o \in Ops : ToggleOp(o)
  \/ \E d \in Defs : ToggleDef(d)
FocusNext ==
  CASE Len(hist) = 0 -> \E cmd \in Cmds : \E opt \in OptsOf(cmd) : Gen(cmd, opt)
    [] Len(hist) = 1 -> Perturb
    [] Len(hist) = 2 -> \E cmd \in Cmds : \E opt \in OptsOf(cmd) :
                          /\ (FocusAll \/ <<cmd, opt>> = <<hist[1].cmd, hist[1].opt>> \/ <<cmd, opt>> = <<"server", "default">>)
                          /\ Gen(cmd, opt)
    [] OTHER -> FALSE
FocusSpec == Init /\ [][FocusNext]_vars
EmitFocus == Len(hist) = 3 => PrintT(<<"CASE", ToJson([hist |-> hist])>>)

\* ---- C11 on the design -------------------------------------------------------------------
IsGen(l) == l.a = "gen"
\* files the generator did not produce are never modified or removed by a run
UserFilesUntouched ==
  [][IsGen(last') => \A u \in UserFiles : files'[P("user", u)] = files[P("user", u)]]_vars
\* the configure file is never rewritten once it exists unless explicitly requested
ConfigureOnce ==
  [][(IsGen(last') /\ Present(files[P("configure", "-")]) /\ last'.opt \notin RegenOpts)
       => files'[P("configure", "-")] = files[P("configure", "-")]]_vars
\* after a run every file it is responsible for is what a fresh generation would contain
Converged ==
  [][IsGen(last') =>
       \A p \in Responsible(last'.cmd, last'.opt, spec) :
          \/ files'[p] = Fresh(last'.cmd, last'.opt, spec, p)
          \/ IsConf(p) /\ Present(files[p]) /\ last'.opt \notin RegenOpts /\ files'[p] = files[p]]_vars
\* a run never removes anything and touches nothing outside its responsibility
NothingElse ==
  [][IsGen(last') =>
       \A p \in Paths \ Responsible(last'.cmd, last'.opt, spec) : files'[p] = files[p]]_vars
\* the user's name space is disjoint from every responsibility set
Disjoint == \A cmd \in Cmds : \A opt \in OptsOf(cmd) : \A u \in UserFiles :
              P("user", u) \notin Responsible(cmd, opt, spec)

\* behaviours for replay: printed once per complete history
EmitHist == Len(hist) = MaxHist => PrintT(<<"CASE", ToJson([hist |-> hist])>>)
=============================================================================
