--------------------------- MODULE TraceNames ---------------------------
(* Trace validation for C08: the life cycle Generate -> Build -> Inspect -> Route* of one document
   carrying two names at one position. *)
EXTENDS Names, Json
Trace == ndJsonDeserialize("trace.ndjson")
VARIABLES l, nrej
tvars == <<l, nrej, phase, nops, ndefs, routes>>
Ev == Trace[l]
IsEvent(e) == l <= Len(Trace) /\ Trace[l].ev = e /\ l' = l + 1
Reject(why) == PrintT(<<"REJECT", ToJson([line |-> l, why |-> why])>>) /\ nrej' = nrej + 1
Judge(why) == IF why = "ok" THEN nrej' = nrej ELSE Reject(why)
TInit == l = 1 /\ nrej = 0 /\ LInit

\* a generation that fails with an error is compliant
TGenerate ==
  /\ IsEvent("Generate")
  /\ phase' = IF Ev.exit = 0 THEN "generated" ELSE "refused"
  /\ nops' = Ev.nOps /\ ndefs' = Ev.nDefs /\ routes' = <<>>
  /\ Judge(IF Ev.exit # 0 /\ ~Ev.errorPrinted THEN "generation fails without a diagnostic" ELSE "ok")
TBuild ==
  /\ IsEvent("Build") /\ phase = "generated"
  /\ phase' = IF Ev.ok THEN "built" ELSE "broken"
  /\ UNCHANGED <<nops, ndefs, routes>>
  /\ Judge(IF Ev.ok THEN "ok" ELSE "generation succeeded on these names but the generated server does not build")
TInspect ==
  /\ IsEvent("Inspect") /\ phase \in {"generated", "built", "broken"}
  /\ UNCHANGED <<phase, nops, ndefs, routes>>
  /\ Judge(IF Ev.nClientMethods # nops THEN "client methods are not in bijection with the operations (one is missing or merged)"
           ELSE IF Ev.nModelTypes # ndefs THEN "model types are not in bijection with the definitions (one is missing or overwritten)"
           ELSE IF phase = "built" /\ Ev.nHandlers # nops THEN "handlers are not in bijection with the operations (one is missing or merged)"
           ELSE "ok")
TRoute ==
  /\ IsEvent("Route") /\ phase = "built"
  /\ routes' = Append(routes, Ev.handler)
  /\ UNCHANGED <<phase, nops, ndefs>>
  /\ Judge(IF ~Ev.reached THEN "a request to the operation's method and path does not reach any handler"
           ELSE IF \E i \in DOMAIN routes : routes[i] = Ev.handler THEN "two operations are served by the same handler"
           ELSE "ok")
\* the server generation was refused and `generate client`, run alone, accepted the same document
TClientOnly ==
  /\ IsEvent("ClientOnly") /\ phase = "refused"
  /\ UNCHANGED <<phase, nops, ndefs, routes>>
  /\ Judge(IF Ev.nClientMethods # Ev.nOps THEN "client methods are not in bijection with the operations (one is missing or merged)" ELSE "ok")
TNext == TGenerate \/ TBuild \/ TInspect \/ TRoute \/ TClientOnly
TSpec == TInit /\ [][TNext]_tvars
Consumed == TLCGet("stats").diameter - 1 = Len(Trace)
=============================================================================
