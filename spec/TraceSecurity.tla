--------------------------- MODULE TraceSecurity ---------------------------
(* Trace validation for C06: every Request event is one request served by the generated server with
   the recording handler and the token-class authenticators; it is judged with the property-level
   operators of Security (part 1). *)
EXTENDS Security, Json
Trace == ndJsonDeserialize("trace.ndjson")
VARIABLES l, nrej
tvars == <<l, nrej, req, creds, pc, ai, si, lastErr, anon, result, princ>>
Ev == Trace[l]
IsEvent(e) == l <= Len(Trace) /\ Trace[l].ev = e /\ l' = l + 1
Reject(why) == PrintT(<<"REJECT", ToJson([line |-> l, why |-> why])>>) /\ nrej' = nrej + 1
Judge(why) == IF why = "ok" THEN nrej' = nrej ELSE Reject(why)

Eff == IF Ev.inherit THEN (IF Ev.ghas THEN Ev.galts ELSE <<>>) ELSE Ev.own
Why ==
  LET e == Eff  cr == Ev.creds IN
  IF Ev.panicked THEN "the server panicked"
  ELSE IF Ev.reached /\ ~MayReach(e, cr) THEN "handler reached although no alternative of the effective requirement is satisfied"
  ELSE IF Ev.reached /\ e # <<>> /\ Ev.deny THEN "handler reached although the authorizer denies"
  ELSE IF Ev.reached /\ Ev.principal \notin AllowedPrincipals(e, cr) THEN "principal is not the one returned by an authenticator of a satisfied alternative"
  ELSE IF ~Ev.reached /\ Ev.valid /\ MustReach(e, cr) /\ (~Ev.deny \/ e = <<>>) THEN "request satisfying the requirement does not reach the handler"
  \* Ev.valid: the request satisfies the declared parameters.  An invalid request may be refused for that
  \* reason (422 ...) only if authentication and authorization could let it through: a request that
  \* satisfies no alternative gets 401/403 whatever else is wrong with it
  ELSE IF ~Ev.reached /\ Ev.status \notin {401, 403} /\ ~(~Ev.valid /\ MayReach(e, cr) /\ (~Ev.deny \/ e = <<>>))
    THEN "rejected request is not answered with 401/403"
  ELSE "ok"

TInit == l = 1 /\ nrej = 0 /\ req = <<>> /\ creds = <<>> /\ pc = "" /\ ai = 0 /\ si = 0 /\ lastErr = FALSE /\ anon = FALSE /\ result = "" /\ princ = ""
TRequest ==
  /\ IsEvent("Request")
  /\ Judge(Why)
  \* the machine of part 2 is set to the observed outcome (its own steps are not logged by the runtime)
  /\ req' = Eff /\ creds' = Ev.creds /\ pc' = "done"
  /\ result' = (IF Ev.reached THEN "reached" ELSE "denied")
  /\ princ' = Ev.principal
  /\ UNCHANGED <<ai, si, lastErr, anon>>
TServer ==
  /\ IsEvent("Server")
  /\ Judge(IF Ev.ok THEN "ok" ELSE "the generated server could not be generated or built")
  /\ UNCHANGED <<req, creds, pc, ai, si, lastErr, anon, result, princ>>
TNext == TRequest \/ TServer
TSpec == TInit /\ [][TNext]_tvars
Consumed == TLCGet("stats").diameter - 1 = Len(Trace)
=============================================================================
