--------------------------- MODULE ParamCases ---------------------------
(***************************************************************************)
(* The bounded universe of operations (one parameter each) and of raw      *)
(* request fragments for C03 / C04: every location x scalar type with each *)
(* validation x required / allowEmptyValue / default, arrays in every      *)
(* collectionFormat with item and count constraints, nested arrays, and    *)
(* body parameters taken from ModelCases.                                  *)
(***************************************************************************)
EXTENDS SimpleParam, Randomization

SimpleLocs == {"query", "header", "path", "formData"}

ScalarKinds ==
  [ int      |-> [type |-> "integer"],
    int_rng  |-> [type |-> "integer", minimum |-> 4, maximum |-> 12],
    int_xrng |-> [type |-> "integer", minimum |-> 4, maximum |-> 12, exclusiveMinimum |-> TRUE],
    int_enum |-> [type |-> "integer", enum |-> <<4, 10>>],
    int_mul  |-> [type |-> "integer", multipleOf |-> 4],
    i32      |-> [type |-> "integer", format |-> "int32", maximum |-> 10],
    num      |-> [type |-> "number", minimum |-> 3],
    f32      |-> [type |-> "number", format |-> "float", maximum |-> 5, exclusiveMaximum |-> TRUE],
    \* asymmetric exclusivity per numeric format (each format takes its own branch of the validation templates)
    i32_xlo  |-> [type |-> "integer", format |-> "int32", minimum |-> 4, maximum |-> 12, exclusiveMinimum |-> TRUE],
    i32_xhi  |-> [type |-> "integer", format |-> "int32", minimum |-> 4, maximum |-> 12, exclusiveMaximum |-> TRUE],
    i64_xhi  |-> [type |-> "integer", format |-> "int64", minimum |-> 4, maximum |-> 12, exclusiveMaximum |-> TRUE],
    u32_xlo  |-> [type |-> "integer", format |-> "uint32", minimum |-> 4, maximum |-> 12, exclusiveMinimum |-> TRUE],
    u32_xhi  |-> [type |-> "integer", format |-> "uint32", minimum |-> 4, maximum |-> 12, exclusiveMaximum |-> TRUE],
    u64_xlo  |-> [type |-> "integer", format |-> "uint64", minimum |-> 4, maximum |-> 12, exclusiveMinimum |-> TRUE],
    u64_xhi  |-> [type |-> "integer", format |-> "uint64", minimum |-> 4, maximum |-> 12, exclusiveMaximum |-> TRUE],
    f32_xlo  |-> [type |-> "number", format |-> "float", minimum |-> 2, maximum |-> 6, exclusiveMinimum |-> TRUE],
    f64_xlo  |-> [type |-> "number", format |-> "double", minimum |-> 2, maximum |-> 6, exclusiveMinimum |-> TRUE],
    f64_xhi  |-> [type |-> "number", format |-> "double", minimum |-> 2, maximum |-> 6, exclusiveMaximum |-> TRUE],
    str      |-> [type |-> "string"],
    str_len  |-> [type |-> "string", minLength |-> 2, maxLength |-> 3],
    str_pat  |-> [type |-> "string", pattern |-> "P_a_prefix"],
    str_enum |-> [type |-> "string", enum |-> <<"a", "ab">>],
    \* the enum with the extension x-go-enum-ci spelled out: false keeps it strict, true folds the case
    str_enum_ci0 |-> [type |-> "string", enum |-> <<"a", "ab">>, enumCI |-> FALSE],
    str_enum_ci1 |-> [type |-> "string", enum |-> <<"a", "ab">>, enumCI |-> TRUE],
    str_date |-> [type |-> "string", format |-> "date"],
    bool     |-> [type |-> "boolean"] ]

ItemKinds ==
  [ i_int     |-> [type |-> "integer", minimum |-> 4],
    i_str     |-> [type |-> "string", maxLength |-> 2],
    i_strenum |-> [type |-> "string", enum |-> <<"a", "ab">>],
    i_strenum_ci0 |-> [type |-> "string", enum |-> <<"a", "ab">>, enumCI |-> FALSE],
    i_bool    |-> [type |-> "boolean"] ]

CFs == {"none", "csv", "ssv", "tsv", "pipes", "multi"}      \* "none": collectionFormat absent (csv by default)

WithCF(r, cf) == IF cf = "none" THEN r ELSE Put(r, "cf", cf)
Named(r, loc, req) == r @@ [name |-> "p", in |-> loc, required |-> req]

\* ---- descriptors ------------------------------------------------------------------------
ScalarParams ==
  {Named(ScalarKinds[k], loc, req) : k \in DOMAIN ScalarKinds, loc \in SimpleLocs, req \in BOOLEAN}
ScalarOK(p) == p["in"] = "path" => p.required

DefaultOf(k) ==
  CASE ScalarKinds[k].type = "integer" -> Num(10)
    [] ScalarKinds[k].type = "number"  -> Num(7)
    [] ScalarKinds[k].type = "boolean" -> Bool(TRUE)
    [] k = "str_date" -> Str("2020-01-02")
    [] OTHER -> Str("ab")
DefaultParams ==
  {Put(Named(ScalarKinds[k], loc, FALSE), "default", DefaultOf(k)) :
      k \in {"int_rng", "num", "str_len", "bool", "str_date", "int"}, loc \in {"query", "header", "formData"}}
\* required AND a default: the default documents a value, it does not make the parameter optional - a request without
\* the parameter is still refused
RequiredDefaultParams ==
  {Put(Named(ScalarKinds[k], loc, TRUE), "default", DefaultOf(k)) : k \in {"int_rng", "str_len"}, loc \in {"query", "header", "formData"}}
AllowEmptyParams ==
  {Put(Named(ScalarKinds[k], loc, req), "allowEmpty", TRUE) :
      k \in {"int", "str_len", "bool"}, loc \in {"query", "formData"}, req \in BOOLEAN}

ArrayOf(ik, cf) == WithCF([type |-> "array", items |-> ItemKinds[ik]], cf)
ArrayParams ==
  {Named(ArrayOf(ik, cf), loc, req) : ik \in DOMAIN ItemKinds, cf \in CFs, loc \in {"query", "header", "formData"}, req \in BOOLEAN}
ArrayOK(p) == Get(p, "cf", "csv") = "multi" => p["in"] \in {"query", "formData"}
ArrayCountParams ==
  {Named(WithCF([type |-> "array", items |-> ItemKinds["i_int"], minItems |-> 2, maxItems |-> 3], cf), loc, FALSE) :
      cf \in {"none", "pipes", "multi"}, loc \in {"query", "formData"}}
  \cup {Named(WithCF([type |-> "array", items |-> ItemKinds["i_str"], uniqueItems |-> TRUE], cf), loc, TRUE) :
      cf \in {"csv", "ssv"}, loc \in {"query", "header"}}
NestedParams ==
  {Named([type |-> "array", cf |-> "pipes",
          items |-> [type |-> "array", cf |-> "csv", maxItems |-> 2, items |-> [type |-> "integer", maximum |-> 10]]], loc, req) :
      loc \in {"query", "header"}, req \in BOOLEAN}
\* three levels: the innermost array declares no collectionFormat (csv by default, whatever encloses it)
Nested3Params ==
  {Named([type |-> "array", cf |-> "pipes",
          items |-> [type |-> "array", cf |-> "ssv", items |-> [type |-> "array", items |-> [type |-> t]]]], loc, FALSE) :
      t \in {"integer", "string"}, loc \in {"query", "header"}}
\* nested arrays with a default: an absent parameter gives the handler the default
NestedDefaultParams ==
  {Put(Named([type |-> "array", cf |-> "pipes", items |-> [type |-> "array", cf |-> "csv", items |-> [type |-> "integer"]]], loc, FALSE),
       "default", Arr(<<Arr(<<Num(2), Num(4)>>), Arr(<<Num(10)>>)>>)) : loc \in {"query", "header", "formData"}}
\* nested arrays whose innermost items need a converter but carry no validation at all
NestedPlainParams ==
  {Named([type |-> "array", cf |-> "pipes", items |-> [type |-> "array", cf |-> "csv", items |-> [type |-> t]]], loc, FALSE) :
      t \in {"integer", "boolean", "string"}, loc \in {"query", "header", "formData"}}
ArrayDefaultParams ==
  {Put(Named(ArrayOf("i_int", cf), loc, FALSE), "default", Arr(<<Num(4), Num(6)>>)) : cf \in {"none", "pipes"}, loc \in {"query", "header"}}

Params == {p \in ScalarParams : ScalarOK(p)} \cup DefaultParams \cup RequiredDefaultParams \cup AllowEmptyParams
          \cup {p \in ArrayParams : ArrayOK(p)} \cup ArrayCountParams \cup NestedParams \cup NestedPlainParams \cup NestedDefaultParams \cup Nested3Params \cup ArrayDefaultParams

\* file parameters (multipart upload): the value is the content of the file; minLength / maxLength bound its
\* size.  They are part of the client/server universe (C04) and of the build matrix (C01); the raw-request
\* universe of C03 (urlencoded fragments) does not apply to them.
FileKinds == {[type |-> "file"], [type |-> "file", maxLength |-> 3], [type |-> "file", minLength |-> 2], [type |-> "file", minLength |-> 2, maxLength |-> 3]}
FileParams == {Named(k, "formData", req) : k \in FileKinds, req \in BOOLEAN}
ParamsC04 == Params \cup FileParams

\* ---- raw fragments ----------------------------------------------------------------------
Absent1 == [present |-> FALSE, vals |-> <<>>]
One(toks) == [present |-> TRUE, vals |-> <<toks>>]
Two(a, b) == [present |-> TRUE, vals |-> <<a, b>>]

ScalarLexemes(p) ==
  CASE p.type = "integer" -> {"0", "1", "2", "5", "6", "7", "12", "-1", "1.5", "x1"}
    [] p.type = "number"  -> {"0", "1", "1.5", "2.5", "5", "x1"}
    [] p.type = "boolean" -> {"true", "false", "1", "0", "x1"}
    [] OTHER -> {"a", "ab", "abc", "abcd", "b", "7", "2020-01-02", "AB"}

Nested3Frags(p) ==
  LET L == IF p.items.items.items.type = "integer" THEN {"1", "2", "5"} ELSE {"a", "ab"} IN
  {Absent1} \cup {One(<<x>>) : x \in L} \cup {One(<<x, ",", y>>) : x \in L, y \in L}
  \cup {One(<<x, ",", y, " ", x>>) : x \in L, y \in L} \cup {One(<<x, ",", y, " ", y, "|", x, ",", x>>) : x \in L, y \in L}
ScalarFrags(p) ==
  (IF p["in"] = "path" THEN {} ELSE {Absent1}) \cup {One(<<x>>) : x \in ScalarLexemes(p)}
  \cup (IF p["in"] = "path" THEN {} ELSE {One(<<>>)})
  \cup (IF p["in"] \in {"query", "formData"}
          THEN {Two(<<x>>, <<y>>) : x \in {"5", "x1", "ab"} \cap ScalarLexemes(p), y \in {"1", "6", "a", "abc", "true"} \cap ScalarLexemes(p)}
          ELSE {})

ItemLexemes(it) ==
  CASE it.type = "integer" -> {"1", "2", "5", "x1"}
    [] it.type = "boolean" -> {"true", "0", "x1"}
    [] OTHER -> IF Has(it, "enumCI") THEN {"a", "ab", "abc", "AB"} ELSE {"a", "ab", "abc"}
SepToks == {",", "|", " ", "TAB"}
ArrayRaws(it) ==
  LET L == ItemLexemes(it) IN
  {<<>>} \cup {<<x>> : x \in L}
  \cup {<<x, s, y>> : x \in L, s \in SepToks, y \in L}
  \cup {<<x, s, s, y>> : x \in {"2", "a", "true"} \cap L, s \in {",", "|"}, y \in {"5", "ab", "0"} \cap L}      \* empty item
  \cup {<<x, s, " ", y>> : x \in {"2", "a", "true"} \cap L, s \in {",", "|"}, y \in {"5", "ab", "0"} \cap L}    \* space after the separator
  \cup {<<x, s, y, s, x>> : x \in {"2", "a"} \cap L, s \in {",", "|", " "}, y \in {"5", "ab"} \cap L}
  \cup {<<x, s, y, s, y, s, x>> : x \in {"2", "a"} \cap L, s \in {","}, y \in {"5", "ab"} \cap L}
ArrayFrags(p) ==
  {Absent1} \cup {One(r) : r \in ArrayRaws(p.items)}
  \cup (IF p["in"] \in {"query", "formData"}
          THEN {Two(<<x>>, <<y>>) : x \in {"2", "a", "true"} \cap ItemLexemes(p.items), y \in {"5", "ab", "x1"} \cap ItemLexemes(p.items)}
               \cup {Two(<<x, ",", y>>, <<y>>) : x \in {"2", "a"} \cap ItemLexemes(p.items), y \in {"5", "ab"} \cap ItemLexemes(p.items)}
               \cup {[present |-> TRUE, vals |-> <<<<x>>, <<y>>, <<x>>, <<y>>>>] : x \in {"2", "a"} \cap ItemLexemes(p.items), y \in {"5", "ab"} \cap ItemLexemes(p.items)}
          ELSE {})
NestedPlainFrags(p) ==
  LET L == ItemLexemes(p.items.items) IN
  {Absent1, One(<<>>)} \cup {One(<<x>>) : x \in L} \cup {One(<<x, ",", y>>) : x \in L, y \in L}
  \cup {One(<<x, ",", y, "|", x>>) : x \in L, y \in L} \cup {One(<<x, "|", y, "|", x, ",", y>>) : x \in {"2", "true", "a"} \cap L, y \in L}
NestedFrags ==
  {Absent1, One(<<>>), One(<<"1">>), One(<<"1", ",", "2">>), One(<<"1", ",", "2", "|", "5">>), One(<<"1", ",", "2", ",", "5">>),
   One(<<"1", "|", "2", "|", "5">>), One(<<"6", "|", "1">>), One(<<"x1", "|", "1">>), One(<<"1", ",", "2", "|", "1", ",", "2", ",", "5">>)}

Frags(p) ==
  IF p.type # "array" THEN ScalarFrags(p)
  ELSE IF p.items.type = "array" /\ p.items.items.type = "array" THEN Nested3Frags(p)
  ELSE IF p.items.type = "array" THEN (IF Has(p.items, "maxItems") THEN NestedFrags ELSE NestedPlainFrags(p))
  ELSE ArrayFrags(p)

=============================================================================
