--------------------------- MODULE GenParams ---------------------------
(* GEN config for C03/C04: one state per parameter descriptor; Emit prints it with its request fragments. *)
EXTENDS ParamCases, Json
CONSTANT Deep     \* thorough tier: beside the shaped fragments, every short token sequence
VARIABLE p
\* every sequence of at most three tokens (item lexemes and all four separators) in which no two lexemes are
\* adjacent (two adjacent lexemes would be one longer lexeme, outside the lexeme tables): leading, trailing and
\* doubled separators, foreign separators inside an item, white space on either side
TokSeqs(L, n) == {s \in UNION {[1..k -> L \cup SepToks] : k \in 0..n} : \A i \in 1..(Len(s) - 1) : ~(s[i] \in L /\ s[i + 1] \in L)}
DeepFrags(q) ==
  IF q.type # "array"
    THEN IF q["in"] \in {"query", "formData"}
           THEN {Two(<<x>>, <<y>>) : x, y \in ScalarLexemes(q)} \cup {Two(<<x>>, <<>>) : x \in ScalarLexemes(q)} \cup {Two(<<>>, <<x>>) : x \in ScalarLexemes(q)}
           ELSE {}
  ELSE IF q.items.type = "array" THEN {}
  ELSE {One(s) : s \in TokSeqs(ItemLexemes(q.items), 3)}
AllFrags(q) == IF Deep THEN Frags(q) \cup DeepFrags(q) ELSE Frags(q)
Init == p \in Params
Next == UNCHANGED p
Emit == PrintT(<<"CASE", ToJson([p |-> p, frags |-> AllFrags(p)])>>)
\* design level: Bind is total on the universe (evaluates without error on every fragment)
Sane == \A f \in AllFrags(p) : Bind(p, f).ok \in BOOLEAN
=============================================================================
