--------------------------- MODULE GenParams ---------------------------
(* GEN config for C03/C04: one state per parameter descriptor; Emit prints it with its request fragments. *)
EXTENDS ParamCases, Json
VARIABLE p
Init == p \in Params
Next == UNCHANGED p
Emit == PrintT(<<"CASE", ToJson([p |-> p, frags |-> Frags(p)])>>)
\* design level: Bind is total on the universe (evaluates without error on every fragment)
Sane == \A f \in Frags(p) : Bind(p, f).ok \in BOOLEAN
=============================================================================
