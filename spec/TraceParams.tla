--------------------------- MODULE TraceParams ---------------------------
(* Trace validation for C03: every Bound event is one HTTP request served by the generated server
   with the recording handler; it is judged against SimpleParam!Bind on the descriptor and the raw
   fragment of the event. *)
EXTENDS ParamCases, ModelCases, Json
Trace == ndJsonDeserialize("trace.ndjson")
VARIABLES l, nrej
tvars == <<l, nrej>>
Ev == Trace[l]
IsEvent(e) == l <= Len(Trace) /\ Trace[l].ev = e /\ l' = l + 1
Reject(why, exp) == PrintT(<<"REJECT", ToJson([line |-> l, why |-> why, expected |-> exp])>>) /\ nrej' = nrej + 1
Judge(why, exp) == IF why = "ok" THEN nrej' = nrej ELSE Reject(why, exp)

B == Bind(Ev.p, Ev.raw)
Got == Val(Ev.params)
Why ==
  IF Ev.panicked THEN "the server panicked"
  ELSE IF B.ok /\ ~Ev.reached THEN "a request satisfying the declared parameter is rejected"
  ELSE IF ~B.ok /\ Ev.reached THEN "the handler runs for a request violating the declared parameter"
  ELSE IF ~B.ok /\ ~(Ev.status >= 400 /\ Ev.status <= 499) THEN "a rejected request is not answered with a 4xx status"
  ELSE IF B.ok /\ B.set /\ ("p" \notin DOMAIN Got \/ Got["p"] # B.val) THEN "the handler receives a value different from the one carried by the request"
  ELSE IF B.ok /\ ~B.set /\ "p" \in DOMAIN Got /\ ~IsZeroish(Got["p"]) THEN "the handler receives a value although the optional parameter is absent and has no default"
  ELSE "ok"

TInit == l = 1 /\ nrej = 0
TBound == IsEvent("Bound") /\ Judge(Why, B)
TServer == IsEvent("Server") /\ Judge(IF Ev.ok THEN "ok" ELSE "the generated server could not be generated or built", [ok |-> FALSE])
\* body parameters: the schema is a ModelCases definition used inline; verdicts as in C02
BodyWhy ==
  LET sch == DefSchema(Ev.def) IN
  IF Ev.panicked THEN "the server panicked"
  ELSE IF HasNumX(Ev.doc) THEN "ok"
  ELSE IF Ev.reached \notin AllowedVerdicts(AllDefs, sch, Ev.doc)
    THEN (IF Ev.reached THEN "the handler runs for a body violating the schema" ELSE "a body valid for the schema is rejected")
  ELSE IF ~Ev.reached /\ ~(Ev.status >= 400 /\ Ev.status <= 499) THEN "a rejected request is not answered with a 4xx status"
  ELSE IF Ev.reached /\ Valid(AllDefs, sch, Ev.doc) /\ ~HasNull(Ev.doc)
          /\ (IF "body" \in DOMAIN Got THEN ~RoundTripAllowed(AllDefs, sch, Ev.doc, Got["body"])
                ELSE ~IsZeroish(Ev.doc))           \* an empty container may be handed over as nil
    THEN "the handler receives a body different from the one sent"
  ELSE "ok"
TBody == IsEvent("Body") /\ Judge(BodyWhy, [valid |-> Valid(AllDefs, DefSchema(Ev.def), Ev.doc)])
\* a required body that is missing
TNoBody == IsEvent("NoBody") /\ Judge(IF Ev.reached THEN "the handler runs although the required body is missing"
                                     ELSE IF ~(Ev.status >= 400 /\ Ev.status <= 499) THEN "a rejected request is not answered with a 4xx status" ELSE "ok", [ok |-> FALSE])

TNext == TBound \/ TServer \/ TBody \/ TNoBody
TSpec == TInit /\ [][TNext]_tvars
Consumed == TLCGet("stats").diameter - 1 = Len(Trace)
=============================================================================
