--------------------------- MODULE DiffModel ---------------------------
(***************************************************************************)
(* `swagger diff`: abstract API documents, the elementary edit catalogue,  *)
(* request semantics (Accepts), breaking-ness derived from request         *)
(* semantics, mirroring of change codes, and the command pipeline          *)
(*   Load -> Analyse -> ReadIgnore -> Filter -> Report(fmt) -> Exit        *)
(* as a state machine.  Serves C12 C13 C14 C15.                            *)
(*                                                                         *)
(* An abstract operation spec (AOS) is a record                            *)
(*   [present, consumes, params, defs, responses] (+ "body" if any)        *)
(* that the harness materialises 1:1 into a one-operation Swagger document.*)
(***************************************************************************)
EXTENDS SimpleParam

(***************************************************************************)
(* 1. Request semantics                                                    *)
(***************************************************************************)
FragKey(p) == p["in"] \o ":" \o p.name
Absent     == [present |-> FALSE, vals |-> <<>>]
FragOf(r, p) == IF FragKey(p) \in DOMAIN r.vals THEN r.vals[FragKey(p)] ELSE Absent

Accepts(S, r) ==
  /\ S.present
  /\ \A i \in DOMAIN S.params : BindOK(S.params[i], FragOf(r, S.params[i]))
  /\ Has(S, "body") =>
       /\ r.ctype \in SeqToSet(S.consumes)
       /\ Has(r, "body") /\ Valid(S.defs, S.body, r.body)

RequestBreaking(A, B, reqs) == \E r \in reqs : Accepts(A, r) /\ ~Accepts(B, r)
Witnesses(A, B, reqs)       == {r \in reqs : Accepts(A, r) /\ ~Accepts(B, r)}

(***************************************************************************)
(* 2. Response-side breaking-ness (the cases docs/reference/transform/     *)
(*    diff.md lists as breaking for clients)                               *)
(***************************************************************************)
RespProps(S, c) ==
  IF Has(S.responses[c], "schema")
    THEN DOMAIN Props(Deref(S.defs, S.responses[c].schema)) ELSE {}
RespHeaders(S, c) == IF Has(S.responses[c], "headers") THEN DOMAIN S.responses[c].headers ELSE {}
RespEnum(S, c, k) ==
  LET sch == Deref(S.defs, S.responses[c].schema) IN
  IF k \in DOMAIN Props(sch) /\ Has(Deref(S.defs, Props(sch)[k]), "enum")
    THEN SeqToSet(Deref(S.defs, Props(sch)[k]).enum) ELSE {}

ResponseBreaking(A, B) ==
  /\ A.present /\ B.present
  /\ \/ (DOMAIN A.responses) \ (DOMAIN B.responses) # {}
     \/ \E c \in (DOMAIN A.responses) \cap (DOMAIN B.responses) :
          \/ RespProps(A, c) \ RespProps(B, c) # {}
          \/ RespHeaders(A, c) \ RespHeaders(B, c) # {}
          \/ \E k \in RespProps(A, c) \cap RespProps(B, c) :
               /\ RespEnum(A, c, k) # {}
               /\ RespEnum(B, c, k) \ RespEnum(A, c, k) # {}

(***************************************************************************)
(* 3. Leaf descriptors and the edit catalogue                              *)
(***************************************************************************)
Leaves ==
  [ INT      |-> [type |-> "integer", minimum |-> 4, maximum |-> 12],
    INTX     |-> [type |-> "integer", minimum |-> 4, maximum |-> 12, exclusiveMinimum |-> TRUE, exclusiveMaximum |-> TRUE],
    INTMUL   |-> [type |-> "integer", multipleOf |-> 4],
    INTPLAIN |-> [type |-> "integer"],
    INTENUM  |-> [type |-> "integer", enum |-> <<4, 8, 12>>],
    NUM      |-> [type |-> "number", minimum |-> 4, maximum |-> 12],
    NUMPLAIN |-> [type |-> "number"],
    STR      |-> [type |-> "string", minLength |-> 1, maxLength |-> 3],
    STRPLAIN |-> [type |-> "string"],
    STRENUM  |-> [type |-> "string", enum |-> <<"a", "ab", "abc">>],
    STRPAT   |-> [type |-> "string", pattern |-> "P_a_prefix"],
    BOOL     |-> [type |-> "boolean"],
    ARR      |-> [type |-> "array", items |-> [type |-> "integer"], minItems |-> 1, maxItems |-> 3],
    ARRPLAIN |-> [type |-> "array", items |-> [type |-> "integer"]],
    ARRSTR   |-> [type |-> "array", items |-> [type |-> "string", maxLength |-> 3]] ]

\* an edit: name, the keyword it touches, whether it touches the items of an array leaf,
\* the new value ("DEL" records deletion), and the leaves it applies to
E(n, k, v, on)  == [name |-> n, k |-> k, v |-> v, del |-> FALSE, items |-> FALSE, on |-> on]
ED(n, k, on)    == [name |-> n, k |-> k, v |-> 0, del |-> TRUE, items |-> FALSE, on |-> on]
EI(n, k, v, on) == [name |-> n, k |-> k, v |-> v, del |-> FALSE, items |-> TRUE, on |-> on]
EID(n, k, on)   == [name |-> n, k |-> k, v |-> 0, del |-> TRUE, items |-> TRUE, on |-> on]

EditSeq == <<
  \* narrowing
  E("minimum_raised",        "minimum", 8,  {"INT", "NUM", "INTX"}),
  E("maximum_lowered",       "maximum", 8,  {"INT", "NUM", "INTX"}),
  E("minimum_added",         "minimum", 8,  {"INTPLAIN", "NUMPLAIN"}),
  E("maximum_added",         "maximum", 8,  {"INTPLAIN", "NUMPLAIN"}),
  E("exclusiveMinimum_added","exclusiveMinimum", TRUE, {"INT", "NUM"}),
  E("exclusiveMaximum_added","exclusiveMaximum", TRUE, {"INT", "NUM"}),
  E("multipleOf_added",      "multipleOf", 4, {"INTPLAIN", "INT"}),
  E("multipleOf_changed",    "multipleOf", 8, {"INTMUL"}),
  E("minLength_raised",      "minLength", 2, {"STR"}),
  E("maxLength_lowered",     "maxLength", 2, {"STR"}),
  E("minLength_added",       "minLength", 2, {"STRPLAIN"}),
  \* bounds whose value is zero: they constrain nothing, but their addition and removal must mirror (C14)
  E("minLength0_added",      "minLength", 0, {"STRPLAIN"}),
  E("minItems0_added",       "minItems", 0, {"ARRPLAIN"}),
  E("maxLength_added",       "maxLength", 2, {"STRPLAIN"}),
  E("pattern_added",         "pattern", "P_a_prefix", {"STRPLAIN", "STR"}),
  E("pattern_changed",       "pattern", "P_len2", {"STRPAT"}),
  E("enum_added",            "enum", <<"a", "ab">>, {"STRPLAIN"}),
  E("enum_value_removed",    "enum", <<"a", "ab">>, {"STRENUM"}),
  E("int_enum_added",        "enum", <<4, 8>>, {"INTPLAIN"}),
  E("int_enum_value_removed","enum", <<4, 8>>, {"INTENUM"}),
  E("type_number_to_integer","type", "integer", {"NUM", "NUMPLAIN"}),
  E("type_string_to_integer","type", "integer", {"STRPLAIN"}),
  E("type_string_to_boolean","type", "boolean", {"STRPLAIN"}),
  E("format_date_added",     "format", "date", {"STRPLAIN"}),
  E("minItems_raised",       "minItems", 2, {"ARR"}),
  E("maxItems_lowered",      "maxItems", 2, {"ARR"}),
  E("minItems_added",        "minItems", 2, {"ARRPLAIN"}),
  E("maxItems_added",        "maxItems", 2, {"ARRPLAIN"}),
  E("uniqueItems_added",     "uniqueItems", TRUE, {"ARRPLAIN", "ARR"}),
  EI("items_minimum_added",  "minimum", 8, {"ARRPLAIN"}),
  EI("items_maximum_added",  "maximum", 8, {"ARRPLAIN"}),
  EI("items_type_integer_to_boolean", "type", "boolean", {"ARRPLAIN"}),
  EI("items_maxLength_lowered", "maxLength", 2, {"ARRSTR"}),
  EI("items_enum_added",     "enum", <<"a", "ab">>, {"ARRSTR"}),
  \* widening / neutral (MustBreak is FALSE; they exercise the other direction and feed C14)
  E("minimum_lowered",       "minimum", 2,  {"INT", "NUM", "INTX"}),
  E("maximum_raised",        "maximum", 14, {"INT", "NUM", "INTX"}),
  ED("minimum_removed",      "minimum", {"INT", "NUM"}),
  ED("maximum_removed",      "maximum", {"INT", "NUM"}),
  ED("exclusiveMinimum_removed", "exclusiveMinimum", {"INTX"}),
  ED("exclusiveMaximum_removed", "exclusiveMaximum", {"INTX"}),
  E("minLength_lowered",     "minLength", 0, {"STR"}),
  E("maxLength_raised",      "maxLength", 4, {"STR"}),
  ED("maxLength_removed",    "maxLength", {"STR"}),
  ED("pattern_removed",      "pattern", {"STRPAT"}),
  E("enum_value_added",      "enum", <<"a", "ab", "abc", "b">>, {"STRENUM"}),
  ED("enum_removed",         "enum", {"STRENUM", "INTENUM"}),
  E("type_integer_to_number","type", "number", {"INT", "INTPLAIN"}),
  E("maxItems_raised",       "maxItems", 4, {"ARR"}),
  ED("minItems_removed",     "minItems", {"ARR"}),
  EID("items_maxLength_removed", "maxLength", {"ARRSTR"})
>>
Edits == {EditSeq[i] : i \in DOMAIN EditSeq}

ApplyEdit(leaf, e) ==
  IF e.items
    THEN Put(leaf, "items", IF e.del THEN Del(leaf.items, e.k) ELSE Put(leaf.items, e.k, e.v))
    ELSE IF e.del THEN Del(leaf, e.k) ELSE Put(leaf, e.k, e.v)

(***************************************************************************)
(* 4. Locations: where a leaf sits in the one-operation document           *)
(***************************************************************************)
ParamLocs == {"query", "header", "path", "formData"}
\* parameters declared at PATH level (shared by the operations of the path) instead of the operation
\* *_override: the operation re-declares a parameter that the path item shares (same name and location):
\* the operation's declaration is the effective one (Swagger 2.0), the edit touches only that one
PathLevelLocs == {"query_pathlevel", "header_pathlevel", "query_override"}
PLoc(loc) == IF loc \in {"query_pathlevel", "query_override"} THEN "query" ELSE IF loc = "header_pathlevel" THEN "header" ELSE loc
BodyLocs  == {"body_prop", "body_ref_prop", "body_ref_ref_prop", "body_ref_items_ref", "body_circular", "body_circular_items", "body_allof_prop", "body_own_allof", "body_own_allofref", "body_items", "body_nested", "body_root"}
RespLocs  == {"resp_prop"}
Locs      == ParamLocs \cup PathLevelLocs \cup BodyLocs

BaseAOS == [present |-> TRUE, consumes |-> <<"application/json">>, params |-> <<>>, defs |-> <<>>,
            responses |-> [r200 |-> [description |-> "ok"]]]

ParamOf(loc, leaf, req, cf) ==
  LET p0 == [k \in DOMAIN leaf \cup {"name", "in", "required"} |->
               IF k = "name" THEN "p" ELSE IF k = "in" THEN loc
               ELSE IF k = "required" THEN (req \/ loc = "path") ELSE leaf[k]]
  IN IF leaf.type = "array" /\ cf # "none" THEN Put(p0, "cf", cf) ELSE p0      \* "none": collectionFormat left out (= csv)

ObjWith(leaf, req) ==
  IF req THEN [type |-> "object", properties |-> [p |-> leaf], required |-> <<"p">>]
         ELSE [type |-> "object", properties |-> [p |-> leaf]]

\* Embed(loc, leaf, req, cf): the AOS carrying the leaf at loc; req = the leaf is required there
Embed(loc, leaf, req, cf) ==
  CASE loc = "query_override" ->
         Put([BaseAOS EXCEPT !.params = <<ParamOf("query", leaf, req, cf)>>], "pathShadow",
             <<ParamOf("query", [type |-> "string", maxLength |-> 40], FALSE, "csv")>>)
    [] loc \in PathLevelLocs ->
         Put([BaseAOS EXCEPT !.params = <<ParamOf(PLoc(loc), leaf, req, cf)>>], "pathLevel", TRUE)
    [] loc \in ParamLocs ->
         IF loc = "formData"
           THEN [BaseAOS EXCEPT !.params = <<ParamOf(loc, leaf, req, cf)>>, !.consumes = <<"application/x-www-form-urlencoded">>]
           ELSE [BaseAOS EXCEPT !.params = <<ParamOf(loc, leaf, req, cf)>>]
    [] loc = "body_root"  -> Put(BaseAOS, "body", leaf)
    [] loc = "body_prop"  -> Put(BaseAOS, "body", ObjWith(leaf, req))
    [] loc = "body_ref_prop" ->
         Put([BaseAOS EXCEPT !.defs = [D |-> ObjWith(leaf, req)]], "body", [ref |-> "D"])
    \* the leaf sits in a definition reached through a chain of two $refs (body -> D -> inner -> E),
    \* resp. through the items of an array property of a referenced definition
    [] loc = "body_ref_ref_prop" ->
         Put([BaseAOS EXCEPT !.defs = [D |-> [type |-> "object", properties |-> [inner |-> [ref |-> "E"], q |-> [type |-> "string"]]],
                                       E |-> ObjWith(leaf, req)]], "body", [ref |-> "D"])
    [] loc = "body_ref_items_ref" ->
         Put([BaseAOS EXCEPT !.defs = [D |-> [type |-> "object", properties |-> [list |-> [type |-> "array", items |-> [ref |-> "E"]]]],
                                       E |-> ObjWith(leaf, req)]], "body", [ref |-> "D"])
    \* circular definitions: through a plain $ref property, and through the items of an array property
    [] loc = "body_circular" ->
         Put([BaseAOS EXCEPT !.defs = [Node |-> Put(ObjWith(leaf, req), "properties", [p |-> leaf, next |-> [ref |-> "Node"]])]], "body", [ref |-> "Node"])
    [] loc = "body_circular_items" ->
         Put([BaseAOS EXCEPT !.defs = [Tree |-> Put(ObjWith(leaf, req), "properties",
                                                  [children |-> [type |-> "array", items |-> [ref |-> "Tree"]], p |-> leaf])]], "body", [ref |-> "Tree"])
    [] loc = "body_allof_prop" ->
         Put([BaseAOS EXCEPT !.defs = [D |-> [type |-> "object", properties |-> [q |-> [type |-> "string"]]]]],
             "body", [allOf |-> <<[ref |-> "D"], ObjWith(leaf, req)>>])
    \* the schema has its own properties AND an allOf member (inline or $ref) that carries the leaf
    [] loc = "body_own_allof" ->
         Put(BaseAOS, "body", [type |-> "object", properties |-> [q |-> [type |-> "string"]], allOf |-> <<ObjWith(leaf, req)>>])
    [] loc = "body_own_allofref" ->
         Put([BaseAOS EXCEPT !.defs = [M |-> ObjWith(leaf, req)]], "body",
             [type |-> "object", properties |-> [q |-> [type |-> "string"]], allOf |-> <<[ref |-> "M"]>>])
    [] loc = "body_items" -> Put(BaseAOS, "body", [type |-> "array", items |-> leaf])
    [] loc = "body_nested" ->
         Put(BaseAOS, "body", [type |-> "object", required |-> <<"o">>, properties |-> [o |-> ObjWith(leaf, req)]])

(***************************************************************************)
(* 5. Candidate requests: boundary values of both documents                *)
(***************************************************************************)
NumCands == {0, 2, 3, 4, 5, 6, 8, 10, 12, 14, 24, -2}       \* all have a lexeme (SimpleParam!NumLex)
StrCands == {"", "a", "ab", "abc", "abcd", "b", "7", "2020-01-02"}
IntItems == {4, 12, 14}
ArrCands == {Arr(q) : q \in UNION {[1..n -> {Num(x) : x \in IntItems}] : n \in 0..4}} \cup
            {Arr(q) : q \in UNION {[1..n -> {Str(x) : x \in {"a", "abc", "b"}}] : n \in 1..2}}
ValCands(leaf) ==
  CASE leaf.type \in {"integer", "number"} -> {Num(n) : n \in NumCands}
    [] leaf.type = "string"  -> {Str(x) : x \in StrCands}
    [] leaf.type = "boolean" -> {Bool(TRUE), Bool(FALSE)}
    [] leaf.type = "array"   -> ArrCands
    [] OTHER -> {}

\* wire form of a value for a simple parameter in collectionFormat cf
RawOf(v, cf) ==
  IF Tag(v) = "arr"
    THEN IF cf = "multi" THEN [i \in DOMAIN Val(v) |-> <<LexOf(Val(v)[i])>>]
         ELSE <<JoinToks(cf, [i \in DOMAIN Val(v) |-> <<LexOf(Val(v)[i])>>])>>
    ELSE IF LexOf(v) = "" THEN << <<>> >> ELSE << <<LexOf(v)>> >>

WrapBody(loc, v) ==
  CASE loc = "body_root"  -> v
    [] loc = "body_items" -> Arr(<<v>>)
    [] loc = "body_nested" -> Obj([o |-> Obj([p |-> v])])
    [] loc = "body_ref_ref_prop" -> Obj([inner |-> Obj([p |-> v])])
    [] loc = "body_ref_items_ref" -> Obj([list |-> Arr(<<Obj([p |-> v])>>)])
    [] OTHER -> Obj([p |-> v])
EmptyBody(loc) ==
  CASE loc = "body_nested" -> Obj([o |-> Obj(<<>>)])
    [] loc = "body_ref_ref_prop" -> Obj([inner |-> Obj(<<>>)])
    [] loc = "body_ref_items_ref" -> Obj([list |-> Arr(<<Obj(<<>>)>>)])
    [] loc = "body_items" -> Arr(<<>>)
    [] OTHER -> Obj(<<>>)

ReqWith(loc0, v, cf) ==
  LET loc == PLoc(loc0) IN
  IF loc \in ParamLocs
    THEN [vals |-> (loc \o ":p") :> [present |-> TRUE, vals |-> RawOf(v, cf)],
          ctype |-> IF loc = "formData" THEN "application/x-www-form-urlencoded" ELSE "application/json", val |-> v]
    ELSE [vals |-> <<>>, ctype |-> "application/json", body |-> WrapBody(loc, v), val |-> v]
ReqWithout(loc0) ==
  LET loc == PLoc(loc0) IN
  IF loc \in ParamLocs
    THEN [vals |-> <<>>, ctype |-> IF loc = "formData" THEN "application/x-www-form-urlencoded" ELSE "application/json"]
    ELSE [vals |-> <<>>, ctype |-> "application/json", body |-> EmptyBody(loc)]

Requests(loc, leafA, leafB, cfA) ==
  {ReqWith(loc, v, cfA) : v \in ValCands(leafA) \cup ValCands(leafB)} \cup
  (IF loc \in {"path", "body_root"} THEN {} ELSE {ReqWithout(loc)})

(***************************************************************************)
(* 6. Change codes, mirroring (C14)                                        *)
(***************************************************************************)
Mirror(c) ==
  CASE c = "AddedEndpoint"             -> "DeletedEndpoint"
    [] c = "DeletedEndpoint"           -> "AddedEndpoint"
    [] c = "DeletedDeprecatedEndpoint" -> "AddedEndpoint"
    [] c = "AddedRequiredProperty"     -> "DeletedProperty"
    [] c = "AddedProperty"             -> "DeletedProperty"
    [] c = "DeletedProperty"           -> "AddedProperty"
    [] c = "AddedOptionalParam"        -> "DeletedOptionalParam"
    [] c = "DeletedOptionalParam"      -> "AddedOptionalParam"
    [] c = "AddedRequiredParam"        -> "DeletedRequiredParam"
    [] c = "DeletedRequiredParam"      -> "AddedRequiredParam"
    [] c = "AddedResponse"             -> "DeletedResponse"
    [] c = "DeletedResponse"           -> "AddedResponse"
    [] c = "WidenedType"               -> "NarrowedType"
    [] c = "NarrowedType"              -> "WidenedType"
    [] c = "ChangedOptionalToRequired" -> "ChangedRequiredToOptional"
    [] c = "ChangedRequiredToOptional" -> "ChangedOptionalToRequired"
    [] c = "AddedEnumValue"            -> "DeletedEnumValue"
    [] c = "DeletedEnumValue"          -> "AddedEnumValue"
    [] c = "AddedConstraint"           -> "DeletedConstraint"
    [] c = "DeletedConstraint"         -> "AddedConstraint"
    [] c = "AddedDescripton"           -> "DeletedDescripton"
    [] c = "DeletedDescripton"         -> "AddedDescripton"
    [] c = "AddedTag"                  -> "DeletedTag"
    [] c = "DeletedTag"                -> "AddedTag"
    [] c = "AddedResponseHeader"       -> "DeletedResponseHeader"
    [] c = "DeletedResponseHeader"     -> "AddedResponseHeader"
    [] c = "AddedConsumesFormat"       -> "DeletedConsumesFormat"
    [] c = "DeletedConsumesFormat"     -> "AddedConsumesFormat"
    [] c = "AddedProducesFormat"       -> "DeletedProducesFormat"
    [] c = "DeletedProducesFormat"     -> "AddedProducesFormat"
    [] c = "AddedSchemes"              -> "DeletedSchemes"
    [] c = "DeletedSchemes"            -> "AddedSchemes"
    [] c = "AddedDefault"              -> "DeletedDefault"
    [] c = "DeletedDefault"            -> "AddedDefault"
    [] c = "AddedExample"              -> "DeletedExample"
    [] c = "DeletedExample"            -> "AddedExample"
    [] c = "AddedExtension"            -> "DeletedExtension"
    [] c = "DeletedExtension"          -> "AddedExtension"
    [] c = "AddedDefinition"           -> "DeletedDefinition"
    [] c = "DeletedDefinition"         -> "AddedDefinition"
    [] OTHER -> c      \* direction-less: Changed*, RefTargetChanged, ChangedCollectionFormat, ...

Codes == {"NoChangeDetected", "AddedEndpoint", "DeletedEndpoint", "DeletedDeprecatedEndpoint",
  "AddedRequiredProperty", "DeletedProperty", "AddedProperty", "AddedOptionalParam", "AddedRequiredParam",
  "DeletedOptionalParam", "DeletedRequiredParam", "DeletedResponse", "AddedResponse", "WidenedType",
  "NarrowedType", "ChangedType", "ChangedToCompatibleType", "ChangedOptionalToRequired",
  "ChangedRequiredToOptional", "AddedEnumValue", "DeletedEnumValue", "AddedResponseHeader",
  "ChangedResponseHeader", "DeletedResponseHeader", "ChangedDescripton", "AddedDescripton",
  "DeletedDescripton", "ChangedTag", "AddedTag", "DeletedTag", "DeletedConstraint", "AddedConstraint",
  "DeletedExtension", "AddedExtension", "ChangedExtensionValue", "ChangedDefault", "AddedDefault",
  "DeletedDefault", "ChangedExample", "AddedExample", "DeletedExample", "ChangedCollectionFormat",
  "AddedConsumesFormat", "DeletedConsumesFormat", "AddedProducesFormat", "DeletedProducesFormat",
  "AddedSchemes", "DeletedSchemes", "ChangedHostURL", "ChangedBasePath", "RefTargetChanged",
  "RefTargetRenamed", "AddedDefinition", "DeletedDefinition"}

\* Mirror is an involution except on the one code that has no own opposite
MirrorInvolutive == \A c \in Codes \ {"DeletedDeprecatedEndpoint", "AddedRequiredProperty"} : Mirror(Mirror(c)) = c

\* bags as functions element -> count, built from sequences
BagOfSeq(q) == [x \in SeqToSet(q) |-> Cardinality({i \in DOMAIN q : q[i] = x})]

\* the report from B to A must be the mirror image of the report from A to B.  An entry is
\* [loc |-> string, code |-> string]; codes with a many-to-one mirror are compared through Canon.
Canon(c) == CASE c = "DeletedDeprecatedEndpoint" -> "DeletedEndpoint"
              [] c = "AddedRequiredProperty"     -> "AddedProperty"
              [] c = "AddedRequiredParam"        -> "AddedParam"
              [] c = "AddedOptionalParam"        -> "AddedParam"
              [] c = "DeletedRequiredParam"      -> "DeletedParam"
              [] c = "DeletedOptionalParam"      -> "DeletedParam"
              [] OTHER -> c
CanonMirror(c) ==
  CASE Canon(c) = "AddedParam"   -> "DeletedParam"
    [] Canon(c) = "DeletedParam" -> "AddedParam"
    [] OTHER -> Canon(Mirror(Canon(c)))
MirrorEntry(e) == [loc |-> e.loc, code |-> CanonMirror(e.code)]
CanonEntry(e)  == [loc |-> e.loc, code |-> Canon(e.code)]
Mirrored(ab, ba) ==
  BagOfSeq([i \in DOMAIN ab |-> MirrorEntry(ab[i])]) = BagOfSeq([i \in DOMAIN ba |-> CanonEntry(ba[i])])

=============================================================================
